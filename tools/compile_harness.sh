#!/bin/bash
# usage: compile_harness.sh <harness-config.json>  -- native type-check of a harness against /repo (go vet-less build of the package with the overlay)
export GOFLAGS=-mod=mod GOPROXY=off GOTOOLCHAIN=local PATH=/opt/veriftools/go1.26.8/bin:$PATH
cfg=$(readlink -f $1); d=$(dirname $cfg); tmp=$(mktemp -d)
python3 - "$cfg" "$d" "$tmp" <<'PY'
import json,sys,os
cfg=json.load(open(sys.argv[1])); d=sys.argv[2]; tmp=sys.argv[3]
rep={}
for i,f in enumerate(cfg['files']):
    rep[os.path.join('/repo',cfg['dir'],'zz_verif_h%d.go'%i)]=os.path.normpath(os.path.join(d,f))
for k,v in (cfg.get('extra_overlay') or {}).items():
    rep[os.path.join('/repo',k)]=os.path.normpath(os.path.join(d,v))
for f in ('vp.go','vp_regex.go'):
    rep['/repo/pkg/zzvp/'+f]='/verif/harness/common/'+f
json.dump({'Replace':rep},open(os.path.join(tmp,'ov.json'),'w'))
print(cfg['dir'])
PY
dir=$(python3 -c "import json;print(json.load(open('$cfg'))['dir'])")
(cd /repo && go build -overlay $tmp/ov.json ./$dir/ ) ; rc=$?
rm -rf $tmp; exit $rc
