#!/bin/bash
# Engine self-validation: the syntactic simplifications of the term layer against cvc5 on random terms.
cd /verif/engine && PATH=/opt/veriftools/go1.26.8/bin:$PATH GOFLAGS=-mod=mod GOPROXY=off GOTOOLCHAIN=local go test -run TestSimplifier -count=1 -v . 2>&1 | tail -4
