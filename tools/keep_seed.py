#!/usr/bin/env python3
# usage: keep_seed.py <agent_out_dir> <seed-id e.g. C09-3> <detected true|false> <by> <notes>
import json, os, shutil, sys
src, sid, det, by, notes = sys.argv[1:6]
dst = os.path.join(os.path.dirname(os.path.abspath(__file__)), "..", "seeded", sid)
os.makedirs(dst, exist_ok=True)
for f in ("patch.diff", "zz_seeded_demo_test.go", "demo_pkg.txt"):
    shutil.copy(os.path.join(src, f), os.path.join(dst, f))
am = json.load(open(os.path.join(src, "meta.json")))
json.dump(am, open(os.path.join(dst, "agent_meta.json"), "w"), indent=1)
prop = sid.split("-")[0]
meta = {"id": sid, "property": prop, "summary": am.get("summary", ""), "needs_to_manifest": am.get("needs_to_manifest", ""),
        "touched_packages": am.get("touched_packages", []),
        "confirmed_by_me": "tools/confirm_seeded.sh in the agent's scratch worktree: patch applies to HEAD, go build ./... ok, demo passes without / fails with the change, existing tests of the touched package pass with the change",
        "check_result": {"detected": det == "true", "by": by, "notes": notes},
        "what_i_ran": ["tools/try_seed.sh %s seeded/%s/patch.diff   (scratch worktree + VERIF_REPO; equivalent to git -C /repo apply / ./check %s / git -C /repo checkout -- .)" % (prop, sid, prop)]}
json.dump(meta, open(os.path.join(dst, "meta.json"), "w"), indent=1)
print("kept", dst)
