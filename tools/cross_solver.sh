#!/bin/bash
# Re-discharges the quick tier of the given properties with the OTHER solver (z3-new where cvc5 is the default and
# vice versa) and prints the verdict lines; evidence files are left untouched. usage: cross_solver.sh C04 C13 ...
export PATH=/opt/veriftools/go1.26.8/bin:$PATH GOFLAGS=-mod=mod GOPROXY=off GOTOOLCHAIN=local
cd /verif
for id in "$@"; do
  for cfg in harness/$id/*.json; do
    def=$(python3 -c "import json;print(json.load(open('$cfg')).get('solver','cvc5'))")
    other=z3-new; [ "$def" = "z3-new" ] && other=cvc5
    echo "== $id $(basename $cfg): default $def, re-run with $other"
    bin/gosym -config $cfg -tier quick -solver $other -noreplay -evidence /tmp/cross_ev.json 2>&1 | grep -E "^harness|^OK|^ERROR|^VIOL|^violation" | cut -c1-160
  done
done
