#!/bin/bash
# Runs every registered check (quick by default) against /repo and refreshes evidence/.
cd /verif
tier=${1:-quick}
for id in $(python3 -c "import json;print(' '.join(c['property_id'] for c in json.load(open('MANIFEST.json'))['checks']))"); do
  start=$(date +%s)
  out=$(./check $id --tier $tier 2>&1)
  rc=$?
  echo "== $id rc=$rc $(( $(date +%s) - start ))s"
  echo "$out" | grep -E "^(VIOLATION|KNOWN-FINDING|ERROR|OK|BOUND-NOT-ESTABLISHED)" | cut -c1-200
done
