#!/bin/bash
# usage: try_seed.sh <property-id> <patch.diff> [check args...]
# Runs ./check for the property against a scratch worktree of /repo with the patch applied (VERIF_REPO), so /repo itself
# stays untouched (e.g. while a long run is reading it). Evidence of such a run is discarded.
id=$1; patch=$(readlink -f $2); shift 2
wt=/tmp/wt_try
[ -d $wt ] || git -C /repo worktree add --detach $wt HEAD -q
git -C $wt checkout -q --detach $(git -C /repo rev-parse HEAD) && git -C $wt checkout -q -- . && git -C $wt clean -fdq
git -C $wt apply $patch || { echo "PATCH DOES NOT APPLY"; exit 2; }
cd /verif
cp evidence/$id.json /tmp/evidence_$id.keep 2>/dev/null
VERIF_REPO=$wt ./check $id "$@"; rc=$?
[ -f /tmp/evidence_$id.keep ] && mv /tmp/evidence_$id.keep evidence/$id.json
git -C $wt checkout -q -- .
exit $rc
