#!/bin/bash
# Re-runs the quick check of each seeded change's property against a scratch worktree with the change applied and
# records whether a natively confirmed VIOLATION is reported. Output: seeded/MATRIX.txt
# usage: seed_matrix.sh [seed-id ...]   (no arguments: all seeds; with arguments: only those, their lines are replaced)
cd /verif
out=seeded/MATRIX.txt
if [ $# -eq 0 ]; then : > $out; set -- $(ls seeded | grep -E '^C[0-9]+-[0-9]+$'); else for id in "$@"; do sed -i "/^$id /d" $out; done; fi
for id in "$@"; do
  d=seeded/$id/; prop=${id%-*}
  [ -f $d/patch.diff ] || continue
  start=$(date +%s)
  res=$(tools/try_seed.sh $prop $d/patch.diff 2>&1)
  rc=$?
  nv=$(echo "$res" | grep -c "^VIOLATION")
  first=$(echo "$res" | grep "^VIOLATION" | head -1 | sed 's/.*replay=.*\/\(Verif[^ ]*\)_[0-9]*\.json/\1/')
  [ "$rc" = 2 ] && echo "$res" | grep -q "PATCH DOES NOT APPLY" && first="PATCH DOES NOT APPLY"
  echo "$id rc=$rc violations=$nv $(( $(date +%s) - start ))s $first" | tee -a $out
done
sort -V -o $out $out
