#!/bin/bash
# usage: confirm_seeded.sh <worktree> <seeded_out_dir>  -- verifies a seeded change independently
wt=$1; out=$2
cd $wt || exit 2
pkg=$(cat $out/demo_pkg.txt | tr -d '\n ')
git checkout -q -- . 2>/dev/null
git apply --check $out/patch.diff || { echo "PATCH DOES NOT APPLY"; exit 1; }
cp $out/zz_seeded_demo_test.go $wt/$pkg/zz_seeded_demo_test.go
echo "--- demo WITHOUT change (must pass)"
go test -vet=off -count=1 -run 'Seeded' ./$pkg/ 2>&1 | tail -3
git apply $out/patch.diff
echo "--- build WITH change"
go build ./... 2>&1 | tail -3
echo "--- demo WITH change (must fail)"
go test -vet=off -count=1 -run 'Seeded' ./$pkg/ 2>&1 | tail -4
echo "--- existing tests of touched packages WITH change (demo skipped)"
for p in $(git diff --name-only | xargs -n1 dirname | sort -u); do
  go test -vet=off -count=1 -skip 'Seeded' ./$p/ 2>&1 | tail -2
done
