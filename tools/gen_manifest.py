#!/usr/bin/env python3
"""Regenerates /verif/MANIFEST.json from the table below (kept in one place so it stays valid)."""
import json, os
ROOT = os.path.dirname(os.path.dirname(os.path.abspath(__file__)))

TECH = "bounded symbolic execution of the real Go SSA (gosym) with SMT (cvc5) discharge of every assertion; counterexamples replayed natively"
NOTE_COMMON = ("Trusted: go/ssa construction, gosym instruction semantics (guarded by native replay of every counterexample and mutant twins), "
               "cvc5, harness oracles. Holds only within the bounds recorded in the evidence file. ")

claimed = {
    "C04": dict(text="One inductive step of the real xds.ShouldRespond / shouldRespondDelta from an arbitrary watched-resource record and an arbitrary request "
                     "(symbolic nonces, every type class, name lists incl. duplicates and '*', error_detail present or not): no crash, respond/silent exactly as the "
                     "protocol requires, record equals the client's subscription after a non-rejected request. All inputs inside the bound are covered by the solver, not sampled.",
                note="Outside: transport behaviour, the closed-loop exchange beyond one step (thorough tier), generator content.", ref="§4 C04"),
    "C07": dict(text="Hostname algebra (host.Name Matches/SubsetOf) decided against the wildcard-language semantics for every pair of names up to the length bound; "
                     "visibility/import predicates of the sidecar scope and DestinationRule selection (exportTo semantics, lookup order) (see evidence for the kernels run).",
                note="Outside: resources generated from the selected service sets.", ref="§4 C07"),
}

claimed.update({
    "C02": dict(text="Merge algebra of PushRequest.Merge/CopyMerge (union of keys, forced OR, newest snapshot, oldest start, reason counts add, operands untouched/unshared) for every pair of "
                     "requests inside the bound, and a bounded model check of the real PushQueue (Enqueue/Dequeue/MarkDone) with a ghost 'owed' state: one push in flight, nothing owed is lost, FIFO, shared request never mutated; "
                     "the real debounce() with senders, timers on a symbolic clock and asynchronous push completion under every schedule within the pre-emption bound: no update lost (a lost update is a deadlock), Forced survives, debounced pushes never overlap; "
                     "and the same loop with explicit time (updates arrive after arbitrary pauses, pushes last arbitrarily long, delay-bounded schedule): the debouncer never gets stuck with a pending request.",
                note="Outside: gRPC stream loops, doSendPushes concurrency limiter, real-time debounce bounds.", ref="§4 C02"),
    "C10": dict(text="Real snapshot construction (initAuthenticationPolicies), selection (getConfigsForWorkload) and ComposePeerAuthentication compared with the documented precedence "
                     "(port > workload > namespace > mesh, oldest wins, ties by name, UNSET inherits, default PERMISSIVE) for every policy set inside the bound, every insertion order, symbolic creation times incl. ties; "
                     "client-side namespace mode agrees with the server side, also after an incremental snapshot update (SidecarScope.AuthnPolicies vs PushContext.AuthnPolicies, shared kernel with C01).",
                note="Outside: filter-chain assembly, ambient conversion, passthrough inference.", ref="§4 C10"),
    "C11": dict(text="xDS identity check (authorize/checkConnectionIdentity/ParseIdentity) against the SPIFFE grammar for every presented identity string within the length bound; "
                     "SDS gate: for every resource name (scheme menu + symbolic suffix), identity, RBAC answer, verified-reference set and cache state, key material is fetched only for the verified namespace and an authorised caller "
                     "(or a verified gateway reference), Authorize is asked only about the verified identity, and every cache lookup happens after the gate.",
                note="Outside: SubjectAccessReview back end, TLS peer extraction.", ref="§4 C11"),
    "C01": dict(text="Decision layer only: the real cds/eds/lds/rdsNeedsPush are monotone under request merging (batching never loses a push a constituent change required) for every pair of requests "
                     "(every config kind, symbolic names, every trigger reason, sidecar/router/waypoint), and a forced request pushes every type and is never filtered; "
                     "snapshot layer: PushContext.updateContext (incremental) gives the same answers as createNewContext (fresh) on the same store for every single changed object of every kind it classifies (thorough: two successive changes), "
                     "observed through the accessors generators read (sidecar scope services/DRs/VSs/authn, authz, EnvoyFilters, telemetry, proxy config, gateways).",
                note="Outside (stated): equality of resources that are not resent, end-to-end stream convergence (needs generator read-sets), Gateway API/ambient/WasmPlugin indexes.", ref="§4 C01"),
    "C03": dict(text="One server-initiated delta push (pushDeltaXds/sendDelta) from an arbitrary bookkeeping state with an arbitrary generator output: the reference delta client ends up holding exactly what the reference SotW client holds, "
                     "everything that ceased to exist is removed, nothing just sent is removed, ECDS never carries removals, removed names sorted, record/nonce updated only on a successful send; delta-aware generators: record follows the delta.",
                note="Outside: equivalence of delta-aware generators (cluster builder, workload generator) with their SotW counterparts.", ref="§4 C03"),
    "C05": dict(text="Fresh stream (no server record), client presents arbitrary retained names, subscriptions and foreign nonces, CDS/EDS in either order: every re-sent subscription is answered, retained-but-deleted names are removed, the record is rebuilt from the current state, "
                     "a CDS request is followed by an EDS push (delta) / the EDS re-request after CDS is answered exactly once (SotW), and the exchange ends silent (no loop).",
                note="Outside: initConnection ordering, IsServerReady gate, WDS content versions, generator content.", ref="§4 C05"),
    "C06": dict(text="Cache token/invalidation protocol of the real lruCache (Add/Get/Clear/ClearAll/Flush + LRU eviction) as a bounded model check with symbolic push-start and invalidation instants: a hit is never older than an invalidation of one of its dependencies, "
                     "every stored entry stays indexed under every dependency; CDS, RDS and EDS cache keys (clusterCache.Key, route.Cache.Key, EndpointBuilder.WriteHash): every field and every list field changes the key stream unambiguously; route.Cache.Cacheable() is checked against the real route translation (cacheable implies independent of the proxy's namespace and labels).",
                note="Outside: inputs read by generators but absent from the entry struct; byte-equality of cached vs fresh protobuf; xxhash collisions.", ref="§4 C06"),
    "C09": dict(text="CreateCertificate binds SANs to exactly the authenticated identities (or the single impersonated identity after the node authorizer accepted it), never to CSR text or other metadata, ForCA is never set, "
                     "unauthenticated callers never reach the signer; the per-cluster impersonation gate accepts only trusted callers whose pod exists with matching UID/SA and only identities running on the caller's node (the real NewClusterNodeAuthorizer with its string-keyed {node, service account} pod index); "
                     "the OIDC authenticator never crashes on any verified subject and derives the identity only from a well-formed system:serviceaccount:ns:sa subject with a matching audience.",
                note="Also: validity arithmetic of the issued certificate (genCertTemplateFromCSR): never beyond the signing certificate's expiry, never longer than requested, nothing issued by an expired signer. Outside: X.509/ASN.1/PEM/crypto, token signature verification, MaxCertTTL/default TTL selection.", ref="§4 C09"),
    "C13": dict(text="Endpoint index: sequential specification (per service and registry shard the index holds exactly the last report; nothing remains of removed shards/services/registries, service accounts included) "
                     "for every operation sequence inside the bound, and linearizability of a report against a concurrent delete / registry removal / prune under every interleaving (<= 3 pre-emptions): the report is never lost; push decision of a report (NoPush only if nothing served changes); "
                     "EDS generation from the index: the real BuildClusterLoadAssignment serves exactly the live members of the subset on the cluster's port (symbolic health, labels, port names; unhealthy members marked).",
                note="Outside: locality weighting and failover, network gateways / split horizon, mTLS metadata, weights, clusters with persistent sessions.", ref="§4 C13"),
    "C18": dict(text="Renewal arithmetic of rotateTime in IEEE-754 doubles for every lifetime (1 s..10 y), grace ratio, jitter and random draw: delay >= 0, never later than expiry, strictly before when ratio-jitter >= 2^-10; "
                     "GenerateSecret under every interleaving of two callers (<= 2 pre-emptions): one signing request, same matching key/chain for all, exactly one rotation per certificate, failures not sticky; "
                     "rotation task clears/notifies once, ignores superseded certificates, changed root announced once.",
                note="Outside: certificate bytes, SDS gRPC service, file watchers, the real delay queue.", ref="§4 C18"),
    "C17": dict(text="Every canonicalising sort (configs, DestinationRules, Services) returns the same sequence for all 6 input permutations of 3 objects with symbolic creation times (ties allowed) and symbolic names; "
                     "the comparator is antisymmetric/transitive/zero only on identical identity; EndpointShards.Keys is ordered for every map iteration order; the real buildGatewayListeners, run twice on the same state under every map iteration order, emits the listeners in the same order.",
                note="Outside: protobuf marshalling, ordering inside the big generators, cross-process identity.", ref="§4 C17"),
    "C19": dict(text="injectRequired decided against the documented precedence for every combination of hostNetwork, namespace vs ignored list, label/annotation presence and arbitrary values, 0-2 never/always selectors with arbitrary validity/emptiness/match, and arbitrary policy string; the same with real metav1.LabelSelector values; and the admission path Webhook.inject up to the decision (pod namespace arriving only on the request, ignored namespaces).",
                note="Outside: idempotent re-injection and container preservation (template/YAML/JSON-patch machinery).", ref="§4 C19"),
})

claimed.update({
    "C12": dict(text="Differential check for every request: the Envoy routes generated by BuildHTTPRoutesForVirtualService/TranslateRoute/TranslateRouteMatch are evaluated by a reference Envoy route matcher and compared with a reference reading of the VirtualService "
                     "(first rule whose match holds; uri exact/prefix/regex incl. ignoreUriCase, headers, withoutHeaders, queryParams, method, authority, port, sourceLabels, gateways; catch-all truncation; SortVHostRoutes), with symbolic literals and a symbolic request.",
                note="Outside: destinations/weights/cluster names, retries/timeouts/mirrors/fault/CORS, TLS/TCP routes, delegates, vhost domains; regexes other than '.*'/'*' are an uninterpreted predicate.", ref="§4 C12"),
    "C20": dict(text="The real IptablesConfigurator.Run + rule builder are executed for every configuration of a menu; the resulting rule vectors are evaluated by a reference netfilter interpreter on a fully symbolic IPv4 packet "
                     "(protocol, 32-bit addresses, port, interfaces, owner uid/gid) and compared with the capture policy of the statement: no redirect loop for proxy-owned traffic, application outbound TCP captured iff included and not excluded "
                     "(ranges, ports, interfaces, loopback), inbound TCP captured iff port included/not excluded/not the tunnel port, app loopback traffic left alone. "
                     "IPv4/IPv6 parity: for dual-stack configurations with paired address options the IPv4 and the IPv6 rule sets give corresponding symbolic packets the same verdict (OUTPUT and PREROUTING). "
                     "DNS capture (nat): application DNS goes to the agent's DNS port iff addressed to a captured server, the proxy's own DNS never does, and all other traffic is decided exactly as without DNS capture.",
                note="Also TPROXY mode: new inbound connections through the mangle table follow the same inbound policy (open finding F16: tunnel port). Outside: TPROXY established connections/marks/OUTPUT side, raw-table conntrack zones, IPv6 DNS servers, IPv6 options without IPv4 counterpart, nftables, CNI in-pod rules, conntrack state, kernel semantics beyond the modelled matches.", ref="§4 C20"),
})

claimed.update({
    "C08": dict(text="Differential check for every request: the RBAC policy generated by authz/model.New + Model.Generate (HTTP and TCP, ALLOW and DENY) is evaluated by a reference Envoy RBAC matcher "
                     "(and/or/not ids and rules, header/url_path/destination_port/authenticated/metadata matchers, safe_regex by structural translation) and compared with a reference reading of the AuthorizationPolicy rule "
                     "(values OR, notValues NOT(OR), exact/prefix*/*suffix/* forms for methods, paths, hosts, ports, principals, namespaces, requestPrincipals); TCP: an ALLOW rule with an HTTP-only field generates nothing, "
                     "a DENY rule matches exactly on its remaining conditions. The request (method, path, host, port, SPIFFE peer identity parts, JWT iss/sub) is symbolic.",
                note="Outside: policy selection for a workload and filter ordering (builder.go), CUSTOM/AUDIT/dry-run, when-conditions, IPv6 blocks, path templates, case folding. Open finding F10 (namespace suffix wildcard) is listed in KNOWN_FINDINGS.json.", ref="§4 C08"),
})

claimed.update({
    "C14": dict(text="Gateway listeners: the real mergeGateways keeps the SNI hosts of TLS servers behind one listening port and bind unique for every pair/triple of servers and port translation. Sidecar route configurations (thin): the real BuildSidecarOutboundVirtualHosts on a real PushContext/SidecarScope for every pair (thorough: triple) of service hostnames and an optional VirtualService host drawn from near-colliding shapes: "
                     "virtual-host names unique, domains unique within the route configuration, non-empty, and every service routable by its own hostname; plus the domain kernel (generateVirtualHostDomains, GenerateAltVirtualHosts, dedupeDomains) "
                     "with symbolic hostnames decided by the solver: domains of distinct services disjoint after de-duplication and a service never loses its own hostname.",
                note="Outside (stated): listeners and filter-chain matches, clusters, gateways, EnvoyFilter patches, weights, protoc-gen-validate rules, EDS/RDS closure, objects that bypass validation. This is a partial check of C14.", ref="§4 C14"),
})

claimed.update({
    "C15": dict(text="Thin: the two hand-written caches of the Kubernetes registry. PodCache (onEvent/addPod/deleteIP/getPodsByIP/needResync) as a bounded model check over pod lifecycle histories (create, IP assignment, readiness, phase, termination, eviction, delete, re-creation under the same name, "
                     "informer coalescing) with symbolic status: after quiescence the IP index answers exactly with the live ready pods owning the IP, reverse index consistent, nothing remains of deleted pods, waiting endpoints are re-queued; "
                     "endpointSliceCache (Update/Delete/Get/Has) over every order of slice operations and every map iteration order: every live address exactly once, nothing of deleted slices, duplicates resolved deterministically.",
                note="Outside (stated): Controller.servicesMap, endpoint conversion, EDS shards, aggregate registry, informer/queue machinery, cold-start equivalence of the whole registry. This is a partial check of C15.", ref="§4 C15"),
})

claimed.update({
    "C16": dict(text="Thin: the real krt runtime (two static input collections, one derived manyCollection whose transformation fetches the second collection through a label filter and may produce nothing, one registered handler) is executed with all its goroutines under delay-bounded schedules "
                     "for every history of 3 input changes (primary/secondary upsert and delete, labels from a 2-value menu, symbolic values): after quiescence List/GetKey equal the transformation of the current inputs, and the handler's event stream obeys the contract "
                     "(add of unknown keys only, update/delete of known keys only, update.Old = last delivered object) and replays to the final contents; handler registered before or after the changes.",
                note="Outside (stated): informer-backed collections, joins, nested join/merge, singletons, indexes, one-to-many transformations, long histories, schedules beyond the delay bound. This is a partial check of C16.", ref="§4 C16"),
})

na = {
}

def main():
    props = [json.loads(l) for l in open(os.path.join(ROOT, "properties.jsonl"))]
    checks = []
    not_app = []
    for p in props:
        pid = p["id"]
        if pid in claimed:
            c = claimed[pid]
            checks.append({
                "property_id": pid,
                "quick_cmd": "./check %s --tier quick" % pid,
                "thorough_cmd": "./check %s --tier thorough" % pid,
                "evidence_file": "/verif/evidence/%s.json" % pid,
                "replay_cmd_template": "./check %s --replay {path}" % pid,
                "engine": "gosym",
                "level_claimed": {"category": "other", "text": c["text"], "design_ref": c["ref"]},
                "level_note": NOTE_COMMON + c["note"],
                "technique": TECH,
            })
        else:
            not_app.append({"property_id": pid, "reason": na.get(pid, "no solver-based check registered yet (harness not built at this commit)")})
    m = {
        "version": 1,
        "setup_cmd": "cd /verif/engine && PATH=/opt/veriftools/go1.26.8/bin:$PATH GOFLAGS=-mod=mod GOPROXY=off GOTOOLCHAIN=local go build -o /verif/bin/gosym .",
        "hooks": {
            "guard": "verif",
            "enable": "none needed: harnesses are injected with go/packages Overlay and `go test -overlay`; no hook code is committed to /repo",
            "baseline_off_cmd": "cd /repo && go build ./... && go test -vet=off -count=1 -timeout 25m ./...",
            "source_commits": [],
            "add_only": True,
        },
        "engines": [{"name": "gosym", "path": "/verif/engine", "serves_properties": sorted(claimed.keys()),
                     "kind_free_text": "symbolic interpreter for Go SSA (golang.org/x/tools/go/ssa v0.50.0) + SMT-LIB2 pipe to cvc5/z3; path exploration by decision-prefix replay; native replay of models with go test -overlay"}],
        "checks": checks,
        "not_applicable": not_app,
        "notes": "See DESIGN.md. Exit codes of ./check: 0 held within bounds, 1 VIOLATION (confirmed by native replay), 2 no verdict (harness does not compile against the tree / engine error).",
    }
    json.dump(m, open(os.path.join(ROOT, "MANIFEST.json"), "w"), indent=1)

main()
