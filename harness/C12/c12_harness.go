package route

import (
	"strings"

	route "github.com/envoyproxy/go-control-plane/envoy/config/route/v3"
	matcher "github.com/envoyproxy/go-control-plane/envoy/type/matcher/v3"

	networking "istio.io/api/networking/v1alpha3"
	"istio.io/istio/pilot/pkg/model"
	"istio.io/istio/pkg/config"
	"istio.io/istio/pkg/config/constants"
	"istio.io/istio/pkg/config/schema/gvk"
	"istio.io/istio/pkg/util/sets"
	vp "istio.io/istio/pkg/zzvp"
)

// ---------------------------------------------------------------- request

type verifReq struct {
	path       string
	method     string
	authority  string
	hdrPresent bool
	hdrVal     string // header "x-h"
	qpPresent  bool
	qpVal      string // query parameter "q"
}

// alphabet of the request path; the ignoreUriCase harness adds an upper-case letter
var verifPathAlphabet = "ab/"

func verifRequest() *verifReq {
	return &verifReq{
		path: "/" + vp.StringIn("req.path", 3, verifPathAlphabet), method: vp.StringIn("req.method", 3, "GET"), authority: vp.StringIn("req.authority", 2, "ab"),
		hdrPresent: vp.Bool("req.hdrPresent"), hdrVal: vp.StringIn("req.hdrVal", 2, "xy"),
		qpPresent: vp.Bool("req.qpPresent"), qpVal: vp.StringIn("req.qpVal", 2, "xy"),
	}
}

func (r *verifReq) header(name string) (string, bool) {
	switch name {
	case ":method":
		return r.method, true
	case ":authority":
		return r.authority, true
	case "x-h":
		return r.hdrVal, r.hdrPresent
	}
	return "", false
}

func verifRegex(p, s string) bool {
	// ".*" matches everything (the code relies on that for catch-all detection); other patterns are opaque
	return vp.Or(p == ".*", vp.RegexUF(p, s))
}

// ---------------------------------------------------------------- reference Envoy route matcher (from the Envoy API docs)

func verifEnvoyString(m *matcher.StringMatcher, v string) bool {
	switch p := m.MatchPattern.(type) {
	case *matcher.StringMatcher_Exact:
		return v == p.Exact
	case *matcher.StringMatcher_Prefix:
		return strings.HasPrefix(v, p.Prefix)
	case *matcher.StringMatcher_SafeRegex:
		return verifRegex(p.SafeRegex.Regex, v)
	}
	panic("unmodelled string matcher")
}

func verifEnvoyHeader(h *route.HeaderMatcher, r *verifReq) bool {
	v, present := r.header(h.Name)
	isPresentMatch := false
	presentWanted := false
	if pm, ok := h.HeaderMatchSpecifier.(*route.HeaderMatcher_PresentMatch); ok {
		isPresentMatch, presentWanted = true, pm.PresentMatch
	}
	// HeaderUtility::matchHeaders
	var whenAbsent bool
	if h.InvertMatch {
		whenAbsent = isPresentMatch && presentWanted
	} else {
		whenAbsent = isPresentMatch && !presentWanted
	}
	value := vp.IteString(present, v, "")
	var m bool
	switch s := h.HeaderMatchSpecifier.(type) {
	case *route.HeaderMatcher_PresentMatch:
		m = s.PresentMatch
	case *route.HeaderMatcher_StringMatch:
		m = verifEnvoyString(s.StringMatch, value)
	case nil:
		m = true // no specifier: present match semantics of an empty matcher
		whenAbsent = h.InvertMatch
	default:
		panic("unmodelled header matcher")
	}
	res := m != h.InvertMatch
	if h.TreatMissingHeaderAsEmpty {
		return res
	}
	return vp.IteBool(present, res, whenAbsent)
}

func verifEnvoyMatch(m *route.RouteMatch, r *verifReq) bool {
	ok := true
	// case_sensitive (default true) governs prefix, path and path_separated_prefix; safe_regex ignores it
	fold := func(s string) string { return s }
	if m.CaseSensitive != nil && !m.CaseSensitive.Value {
		fold = strings.ToLower
	}
	switch p := m.PathSpecifier.(type) {
	case *route.RouteMatch_Prefix:
		ok = strings.HasPrefix(fold(r.path), fold(p.Prefix))
	case *route.RouteMatch_Path:
		ok = fold(r.path) == fold(p.Path)
	case *route.RouteMatch_SafeRegex:
		ok = verifRegex(p.SafeRegex.Regex, r.path)
	case *route.RouteMatch_PathSeparatedPrefix:
		ok = vp.Or(fold(r.path) == fold(p.PathSeparatedPrefix), strings.HasPrefix(fold(r.path), fold(p.PathSeparatedPrefix)+"/"))
	default:
		panic("unmodelled path specifier")
	}
	for _, h := range m.Headers {
		ok = vp.And(ok, verifEnvoyHeader(h, r))
	}
	for _, q := range m.QueryParameters {
		if q.Name != "q" {
			panic("unexpected query parameter")
		}
		switch s := q.QueryParameterMatchSpecifier.(type) {
		case *route.QueryParameterMatcher_PresentMatch:
			ok = vp.And(ok, r.qpPresent == s.PresentMatch)
		case *route.QueryParameterMatcher_StringMatch:
			ok = vp.And(ok, vp.And(r.qpPresent, verifEnvoyString(s.StringMatch, r.qpVal)))
		default:
			panic("unmodelled query matcher")
		}
	}
	if len(m.DynamicMetadata) > 0 {
		panic("metadata matchers are outside this harness")
	}
	return ok
}

// first matching route wins; -1 = no route
func verifEnvoySelect(routes []*route.Route, r *verifReq) int {
	sel, decided := -1, false
	for _, rt := range routes {
		m := vp.And(!decided, verifEnvoyMatch(rt.Match, r))
		status := -2
		if dr := rt.GetDirectResponse(); dr != nil {
			status = int(dr.Status)
		}
		sel = vp.IteInt(m, status, sel)
		decided = vp.Or(decided, m)
	}
	return sel
}

// ---------------------------------------------------------------- reference VirtualService semantics (from the API docs)

func verifIstioString(m *networking.StringMatch, v string) bool {
	switch p := m.MatchType.(type) {
	case *networking.StringMatch_Exact:
		return v == p.Exact
	case *networking.StringMatch_Prefix:
		return strings.HasPrefix(v, p.Prefix)
	case *networking.StringMatch_Regex:
		return verifRegex(p.Regex, v)
	}
	panic("empty string match")
}

func verifIstioBlock(b *networking.HTTPMatchRequest, r *verifReq) bool {
	ok := true
	if b.Uri != nil {
		if b.IgnoreUriCase {
			// API reference: "the case will be ignored only in the case of exact and prefix URI matches"
			switch p := b.Uri.MatchType.(type) {
			case *networking.StringMatch_Exact:
				ok = vp.And(ok, strings.ToLower(r.path) == strings.ToLower(p.Exact))
			case *networking.StringMatch_Prefix:
				ok = vp.And(ok, strings.HasPrefix(strings.ToLower(r.path), strings.ToLower(p.Prefix)))
			default:
				ok = vp.And(ok, verifIstioString(b.Uri, r.path))
			}
		} else {
			ok = vp.And(ok, verifIstioString(b.Uri, r.path))
		}
	}
	if b.Method != nil {
		ok = vp.And(ok, verifIstioString(b.Method, r.method))
	}
	if b.Authority != nil {
		ok = vp.And(ok, verifIstioString(b.Authority, r.authority))
	}
	for name, m := range b.Headers {
		v, present := r.header(name)
		if rx, isRx := m.MatchType.(*networking.StringMatch_Regex); isRx && rx.Regex == "*" {
			ok = vp.And(ok, present) // "*" means: the header is present
		} else {
			ok = vp.And(ok, vp.And(present, verifIstioString(m, v)))
		}
	}
	for name, m := range b.WithoutHeaders {
		v, present := r.header(name)
		if rx, isRx := m.MatchType.(*networking.StringMatch_Regex); isRx && rx.Regex == "*" {
			ok = vp.And(ok, !present)
		} else {
			// the request must NOT carry a header matched by the rule; a missing header counts as an empty value
			// (documented translation: invert_match + treat_missing_header_as_empty)
			ok = vp.And(ok, vp.Not(verifIstioString(m, vp.IteString(present, v, ""))))
		}
	}
	for _, m := range b.QueryParams {
		ok = vp.And(ok, vp.And(r.qpPresent, verifIstioString(m, r.qpVal)))
	}
	return ok
}

func verifSourceOK(b *networking.HTTPMatchRequest, proxyLabels map[string]string, proxyNs string, gateways sets.String, port int) bool {
	if b.Port != 0 && int(b.Port) != port {
		return false
	}
	if len(b.Gateways) > 0 {
		for _, g := range b.Gateways {
			if gateways.Contains(g) {
				return true
			}
		}
		return false
	}
	for k, v := range b.SourceLabels {
		if proxyLabels[k] != v {
			return false
		}
	}
	return b.SourceNamespace == "" || b.SourceNamespace == proxyNs
}

func verifIstioSelect(vs *networking.VirtualService, r *verifReq, proxyLabels map[string]string, proxyNs string, gateways sets.String, port int) int {
	sel, decided := -1, false
	for _, h := range vs.Http {
		m := false
		if len(h.Match) == 0 {
			m = true
		}
		for _, b := range h.Match {
			if verifSourceOK(b, proxyLabels, proxyNs, gateways, port) {
				m = vp.Or(m, verifIstioBlock(b, r))
			}
		}
		hit := vp.And(!decided, m)
		sel = vp.IteInt(hit, int(h.DirectResponse.Status), sel)
		decided = vp.Or(decided, hit)
	}
	return sel
}

// ---------------------------------------------------------------- symbolic VirtualService

func verifStringMatch(p string, kinds int) *networking.StringMatch {
	lit := vp.StringIn(p+".lit", 2, "ab/xyGET.*")
	// admission: prefix and regex literals are non-empty; exact literals are taken non-empty too (an empty
	// exact value is indistinguishable from a missing header by design: treat_missing_header_as_empty)
	vp.Assume(lit != "")
	switch vp.Choice(p+".kind", kinds) {
	case 0:
		return nil
	case 1:
		return &networking.StringMatch{MatchType: &networking.StringMatch_Exact{Exact: lit}}
	case 2:
		return &networking.StringMatch{MatchType: &networking.StringMatch_Prefix{Prefix: lit}}
	case 3:
		return &networking.StringMatch{MatchType: &networking.StringMatch_Regex{Regex: lit}}
	}
	return &networking.StringMatch{MatchType: &networking.StringMatch_Regex{Regex: "*"}}
}

func verifBlock(p string) *networking.HTTPMatchRequest {
	b := &networking.HTTPMatchRequest{}
	if u := verifStringMatch(p+".uri", 4); u != nil {
		// uri literals are rooted
		switch m := u.MatchType.(type) {
		case *networking.StringMatch_Exact:
			m.Exact = "/" + m.Exact
		case *networking.StringMatch_Prefix:
			m.Prefix = "/" + m.Prefix
		}
		b.Uri = u
	}
	switch vp.Choice(p+".extra", 6) {
	case 1:
		b.Headers = map[string]*networking.StringMatch{"x-h": verifStringMatch(p+".hdr", 5)}
		if b.Headers["x-h"] == nil {
			b.Headers = nil
		}
	case 2:
		b.WithoutHeaders = map[string]*networking.StringMatch{"x-h": verifStringMatch(p+".nohdr", 5)}
		if b.WithoutHeaders["x-h"] == nil {
			b.WithoutHeaders = nil
		}
	case 3:
		if m := verifStringMatch(p+".qp", 3); m != nil {
			b.QueryParams = map[string]*networking.StringMatch{"q": m}
		}
	case 4:
		b.Method = verifStringMatch(p+".method", 2)
	case 5:
		b.Authority = verifStringMatch(p+".authority", 3)
	}
	switch vp.Choice(p+".source", 7) {
	case 1:
		b.Port = 80
	case 2:
		b.Port = 8080
	case 3:
		b.SourceLabels = map[string]string{"app": []string{"x", "other"}[vp.Choice(p+".label", 2)]}
	case 4:
		b.Gateways = []string{[]string{constants.IstioMeshGateway, "some-gateway"}[vp.Choice(p+".gw", 2)]}
	case 5:
		b.SourceNamespace = []string{"ns", "other"}[vp.Choice(p+".srcns", 2)]
	case 6:
		// labels AND namespace: both must hold
		b.SourceLabels = map[string]string{"app": []string{"x", "other"}[vp.Choice(p+".label", 2)]}
		b.SourceNamespace = []string{"ns", "other"}[vp.Choice(p+".srcns", 2)]
	}
	return b
}

// verifSmallBlock: uri condition and source/port filter only (used where several rules interact)
func verifSmallBlock(p string) *networking.HTTPMatchRequest {
	b := &networking.HTTPMatchRequest{}
	if u := verifStringMatch(p+".uri", 4); u != nil {
		switch m := u.MatchType.(type) {
		case *networking.StringMatch_Exact:
			m.Exact = "/" + m.Exact
		case *networking.StringMatch_Prefix:
			m.Prefix = "/" + m.Prefix
		}
		b.Uri = u
	}
	switch vp.Choice(p+".source", 4) {
	case 1:
		b.Port = 8080
	case 2:
		b.SourceLabels = map[string]string{"app": "other"}
	case 3:
		b.SourceLabels, b.SourceNamespace = map[string]string{"app": "x"}, "other" // labels match, namespace does not
	}
	return b
}

// shape "translation": rule0 has one fully general match block, rule1 is the default (no match)
// shape "order": nRules rules with 0..1 small blocks each
func verifVS(nRules int, full bool) *networking.VirtualService {
	vs := &networking.VirtualService{Hosts: []string{"svc"}}
	for i := 0; i < nRules; i++ {
		p := vp.Name("rule", i)
		h := &networking.HTTPRoute{Name: p, DirectResponse: &networking.HTTPDirectResponse{Status: uint32(200 + i)}}
		if full {
			if i == 0 {
				h.Match = append(h.Match, verifBlock(p+".m0"))
				if vp.Tier() == 1 && vp.Choice(p+".second", 2) == 1 {
					h.Match = append(h.Match, verifSmallBlock(p+".m1"))
				}
			}
		} else {
			nb := vp.Choice(p+".blocks", 2)
			for j := 0; j < nb; j++ {
				h.Match = append(h.Match, verifSmallBlock(vp.Name(p+".m", j)))
			}
		}
		vs.Http = append(vs.Http, h)
	}
	return vs
}

func verifCompare(vs *networking.VirtualService, label string) {
	cfg := config.Config{Meta: config.Meta{GroupVersionKind: gvk.VirtualService, Name: "vs", Namespace: "ns"}, Spec: vs}
	node := &model.Proxy{Type: model.SidecarProxy, Labels: map[string]string{"app": "x"}, Metadata: &model.NodeMetadata{Namespace: "ns"}}
	gateways := sets.New(constants.IstioMeshGateway)
	routes, err := BuildHTTPRoutesForVirtualService(node, cfg, 80, gateways, RouteOptions{})
	if err != nil {
		routes = nil
	}
	req := verifRequest()
	vp.Reach("built")
	got := verifEnvoySelect(routes, req)
	want := verifIstioSelect(vs, req, node.Labels, "ns", gateways, 80)
	vp.Assert(got == want, label)
	// a route the code calls catch-all really matches every request
	for _, r := range routes {
		if IsCatchAllRoute(r) {
			vp.Assert(verifEnvoyMatch(r.Match, req), "catch-all-route-matches-everything")
		}
	}
}

// For every request, the route generated for one match block selects exactly the requests the block describes
// (every condition kind, source/port filtering), with the default rule behind it.
func VerifC12MatchTranslation() {
	verifCompare(verifVS(2, true), "generated-route-matches-what-the-match-block-says")
}

// ignoreUriCase: exact and prefix uri matches fold case, regex does not; literals and the request path may carry upper case.
func VerifC12IgnoreUriCase() {
	verifPathAlphabet = "aA/"
	vs := &networking.VirtualService{Hosts: []string{"svc"}}
	b := &networking.HTTPMatchRequest{IgnoreUriCase: vp.Choice("ignoreUriCase", 2) == 1}
	lit := "/" + vp.StringIn("uri.lit", 2, "aA/")
	switch vp.Choice("uri.kind", 3) {
	case 0:
		b.Uri = &networking.StringMatch{MatchType: &networking.StringMatch_Exact{Exact: lit}}
	case 1:
		b.Uri = &networking.StringMatch{MatchType: &networking.StringMatch_Prefix{Prefix: lit}}
	default:
		b.Uri = &networking.StringMatch{MatchType: &networking.StringMatch_Regex{Regex: lit}}
	}
	vs.Http = []*networking.HTTPRoute{
		{Name: "rule0", Match: []*networking.HTTPMatchRequest{b}, DirectResponse: &networking.HTTPDirectResponse{Status: 200}},
		{Name: "rule1", DirectResponse: &networking.HTTPDirectResponse{Status: 201}},
	}
	verifCompare(vs, "ignore-uri-case-folds-exact-and-prefix-only")
}

// Rule order, early stop at a catch-all, dropped (filtered) blocks: first matching rule wins for every request.
func VerifC12RuleOrder() {
	verifCompare(verifVS(3+vp.Tier(), false), "first-matching-rule-wins")
}

// SortVHostRoutes only moves catch-all routes to the end: selection is unchanged when the catch-alls are the last ones
// already, and the relative order of all other routes is preserved.
func VerifC12SortRoutes() {
	vs := verifVS(3, false)
	cfg := config.Config{Meta: config.Meta{GroupVersionKind: gvk.VirtualService, Name: "vs", Namespace: "ns"}, Spec: vs}
	node := &model.Proxy{Type: model.SidecarProxy, Labels: map[string]string{"app": "x"}, Metadata: &model.NodeMetadata{Namespace: "ns"}}
	routes, err := BuildHTTPRoutesForVirtualService(node, cfg, 80, sets.New(constants.IstioMeshGateway), RouteOptions{})
	if err != nil {
		return
	}
	sorted := SortVHostRoutes(routes)
	vp.Reach("sorted")
	vp.Assert(len(sorted) == len(routes), "sort-keeps-every-route")
	req := verifRequest()
	// routes of ONE virtual service end at the first catch-all, so sorting must not change what is selected
	vp.Assert(verifEnvoySelect(sorted, req) == verifEnvoySelect(routes, req), "sorting-does-not-change-selection")
	last := -1
	for _, s := range sorted {
		if IsCatchAllRoute(s) {
			continue
		}
		for i, r := range routes {
			if r == s {
				vp.Assert(i > last, "non-catch-all-order-preserved")
				last = i
			}
		}
	}
}

// Mutant twin: "withoutHeaders behaves like headers" must be refuted.
func VerifC12Twin() {
	b := &networking.HTTPMatchRequest{WithoutHeaders: map[string]*networking.StringMatch{"x-h": {MatchType: &networking.StringMatch_Exact{Exact: "x"}}}}
	vs := &networking.VirtualService{Http: []*networking.HTTPRoute{{Name: "r", Match: []*networking.HTTPMatchRequest{b}, DirectResponse: &networking.HTTPDirectResponse{Status: 200}}}}
	cfg := config.Config{Meta: config.Meta{GroupVersionKind: gvk.VirtualService, Name: "vs", Namespace: "ns"}, Spec: vs}
	node := &model.Proxy{Type: model.SidecarProxy, Labels: map[string]string{"app": "x"}, Metadata: &model.NodeMetadata{Namespace: "ns"}}
	routes, _ := BuildHTTPRoutesForVirtualService(node, cfg, 80, sets.New(constants.IstioMeshGateway), RouteOptions{})
	req := verifRequest()
	wrong := vp.IteInt(vp.And(req.hdrPresent, req.hdrVal == "x"), 200, -1)
	vp.Assert(verifEnvoySelect(routes, req) == wrong, "twin")
}
