package core

// C14: resources a proxy can load. Kernel K1: virtual-host names and domains inside one sidecar route
// configuration never collide, for every pair/triple of service hostnames and VirtualService hosts.

import (
	"strings"
	"time"

	cluster "github.com/envoyproxy/go-control-plane/envoy/config/cluster/v3"
	route "github.com/envoyproxy/go-control-plane/envoy/config/route/v3"
	meshconfig "istio.io/api/mesh/v1alpha1"
	networking "istio.io/api/networking/v1alpha3"

	"istio.io/istio/pilot/pkg/model"
	"istio.io/istio/pilot/pkg/networking/util"
	"istio.io/istio/pilot/pkg/serviceregistry/provider"
	"istio.io/istio/pkg/config"
	"istio.io/istio/pkg/config/host"
	"istio.io/istio/pkg/config/protocol"
	"istio.io/istio/pkg/config/schema/gvk"
	"istio.io/istio/pkg/util/sets"
	vp "istio.io/istio/pkg/zzvp"
)

// hostnames: kube style <n>.<ns>.svc.cluster.local, or a ServiceEntry host (short name, name.ns, name.ns.svc, external FQDN)
// alphabet of symbolic names; the port-0 listener adds an upper-case letter (Envoy compares domains case-insensitively)
var verifC14Alphabet = "ab"

func verifC14Host(p string, symbolic bool) (string, string) {
	var n string
	if symbolic {
		n = vp.StringIn(p+".name", 2, verifC14Alphabet)
		vp.Assume(n != "")
	} else {
		n = []string{"a", "b"}[vp.Choice(p+".name", 2)]
	}
	ns := []string{"ns1", "ns2"}[vp.Choice(p+".ns", 2)]
	switch vp.Choice(p+".form", 6) {
	case 0:
		return n + "." + ns + ".svc.cluster.local", ns
	case 1:
		return n, ns
	case 2:
		return n + "." + ns, ns
	case 3:
		return n + "." + ns + ".svc", ns
	case 4:
		return n + ".com", ns
	}
	return n + "." + ns + ".svc.cluster.local.com", ns
}

func verifC14Svc(i int, symbolic bool) *model.Service {
	p := vp.Name("svc", i)
	h, ns := verifC14Host(p, symbolic)
	reg := "External"
	if !symbolic && strings.HasSuffix(h, ".svc.cluster.local") {
		reg = "Kubernetes"
	}
	return &model.Service{
		Hostname:     host.Name(h),
		CreationTime: time.Unix(int64(1000+i), 0),
		Ports:        model.PortList{{Name: "http", Port: 80, Protocol: protocol.HTTP}},
		Attributes:   model.ServiceAttributes{Name: "s", Namespace: ns, ServiceRegistry: provider.ID(reg)},
	}
}

func verifC14Check(vhosts []*route.VirtualHost) {
	names := map[string]bool{}
	domains := map[string]bool{}
	for _, vh := range vhosts {
		vp.Assert(!names[vh.Name], "virtual-host-names-are-unique")
		names[vh.Name] = true
		vp.Assert(len(vh.Domains) > 0, "virtual-host-has-a-domain")
		for _, d := range vh.Domains {
			vp.Assert(d != "", "domain-is-not-empty")
			// Envoy compares domains case-insensitively; all harness strings are lower case
			vp.Assert(!domains[d], "virtual-host-domains-are-unique-within-the-route-configuration")
			domains[d] = true
		}
	}
}

func verifC14World(nSvc int, withVS bool) (*model.Proxy, *model.PushContext) {
	var svcs []*model.Service
	for i := 0; i < nSvc; i++ {
		svcs = append(svcs, verifC14Svc(i, false))
	}
	store := &model.VerifStore{Configs: map[config.GroupVersionKind][]config.Config{}}
	if withVS {
		vh, _ := verifC14Host("vs", false)
		if vp.Choice("vs.wildcard", 2) == 1 {
			vh = "*." + vh
		}
		store.Configs[gvk.VirtualService] = []config.Config{{
			Meta: config.Meta{GroupVersionKind: gvk.VirtualService, Name: "vs", Namespace: "ns1", CreationTimestamp: time.Unix(2000, 0)},
			Spec: &networking.VirtualService{Hosts: []string{vh}, Gateways: []string{"mesh"}, Http: []*networking.HTTPRoute{{
				Route: []*networking.HTTPRouteDestination{{Destination: &networking.Destination{Host: string(svcs[0].Hostname), Port: &networking.PortSelector{Number: 80}}}},
			}}},
		}}
	}
	env := model.VerifWorld(&meshconfig.MeshConfig{RootNamespace: "istio-system"}, svcs, store)
	push := model.NewPushContext()
	push.InitContext(env, nil, nil)
	node := &model.Proxy{Type: model.SidecarProxy, ConfigNamespace: "ns1", DNSDomain: "ns1.svc.cluster.local", IPAddresses: []string{"10.0.0.1"},
		Metadata: &model.NodeMetadata{Namespace: "ns1"}, IstioVersion: model.MaxIstioVersion, ID: "p"}
	node.SetSidecarScope(push)
	return node, push
}

func VerifC14VhostDomains() {
	n := 2 + vp.Tier()
	node, push := verifC14World(n, vp.Choice("withVS", 2) == 1)
	vp.Reach("world")
	vhosts, _, _ := BuildSidecarOutboundVirtualHosts(node, push, "80", 80, nil, model.DisabledCache{})
	vp.Reach("built")
	verifC14Check(vhosts)
	// closed: every service of the listener port can be reached by its own hostname
	for _, svc := range node.SidecarScope.Services() {
		found := false
		for _, vh := range vhosts {
			for _, d := range vh.Domains {
				if d == string(svc.Hostname) {
					found = true
				}
			}
		}
		vp.Assert(found, "every-service-is-routable-by-its-own-hostname")
	}
}

// K1b: the same through a Sidecar HTTP_PROXY egress listener (all ports in one route configuration, hostnames not
// lower-cased by the caller), with hostnames that differ in letter case: domains unique ignoring case, and a service
// whose hostname is no other service's hostname (ignoring case) is routable by it.
func VerifC14HTTPProxyListener() {
	names := []string{"a", "A", "b"}
	mk := func(i int) *model.Service {
		p := vp.Name("svc", i)
		n := names[vp.Choice(p+".name", len(names))]
		ns := []string{"ns1", "ns2"}[vp.Choice(p+".ns", 2)]
		var h string
		switch vp.Choice(p+".form", 4) {
		case 0:
			h = n + "." + ns + ".svc.cluster.local"
		case 1:
			h = n
		case 2:
			h = n + "." + ns
		default:
			h = n + "." + ns + ".svc"
		}
		svc := &model.Service{Hostname: host.Name(h), CreationTime: time.Unix(int64(1000+i), 0),
			Ports:      model.PortList{{Name: "http", Port: 80, Protocol: protocol.HTTP}},
			Attributes: model.ServiceAttributes{Name: "s", Namespace: ns, ServiceRegistry: provider.External}}
		// the first service may have a second HTTP port and a VIP (IPv4 or IPv6): on the port-0 listener every port
		// contributes a virtual host, and an address is a domain of each of them
		if i == 0 {
			if vp.Choice(p+".twoPorts", 2) == 1 {
				svc.Ports = append(svc.Ports, &model.Port{Name: "http-alt", Port: 8080, Protocol: protocol.HTTP})
			}
			switch vp.Choice(p+".vip", 3) {
			case 1:
				svc.DefaultAddress = "10.0.0.9"
			case 2:
				svc.DefaultAddress = "2001:db8::1"
			}
		}
		return svc
	}
	svcs := []*model.Service{mk(0), mk(1)}
	if svcs[0].Hostname == svcs[1].Hostname {
		return
	}
	store := &model.VerifStore{Configs: map[config.GroupVersionKind][]config.Config{}}
	store.Configs[gvk.Sidecar] = []config.Config{{
		Meta: config.Meta{GroupVersionKind: gvk.Sidecar, Name: "http-proxy", Namespace: "ns1", CreationTimestamp: time.Unix(2000, 0)},
		Spec: &networking.Sidecar{Egress: []*networking.IstioEgressListener{{
			Port:  &networking.SidecarPort{Number: 7443, Protocol: "HTTP_PROXY", Name: "proxy"},
			Hosts: []string{"*/*"},
		}}},
	}}
	env := model.VerifWorld(&meshconfig.MeshConfig{RootNamespace: "istio-system"}, svcs, store)
	push := model.NewPushContext()
	push.InitContext(env, nil, nil)
	node := &model.Proxy{Type: model.SidecarProxy, ConfigNamespace: "ns1", DNSDomain: "ns1.svc.cluster.local", IPAddresses: []string{"10.0.0.1"},
		Metadata: &model.NodeMetadata{Namespace: "ns1"}, IstioVersion: model.MaxIstioVersion, ID: "p"}
	node.SetSidecarScope(push)
	vp.Reach("world")
	vhosts, _, _ := BuildSidecarOutboundVirtualHosts(node, push, "7443", 7443, nil, model.DisabledCache{})
	vp.Reach("built")
	seen := map[string]bool{}
	for _, vh := range vhosts {
		vp.Assert(len(vh.Domains) > 0, "virtual-host-has-a-domain")
		for _, d := range vh.Domains {
			vp.Assert(!seen[strings.ToLower(d)], "virtual-host-domains-are-unique-ignoring-case")
			seen[strings.ToLower(d)] = true
		}
	}
	if strings.ToLower(string(svcs[0].Hostname)) != strings.ToLower(string(svcs[1].Hostname)) {
		for _, svc := range svcs {
			found := false
			for _, vh := range vhosts {
				if vh.Name == util.DomainName(string(svc.Hostname), 80) {
					for _, d := range vh.Domains {
						if d == string(svc.Hostname) {
							found = true
						}
					}
				}
			}
			vp.Assert(found, "every-service-is-routable-by-its-own-hostname")
		}
	}
}

// K1a, symbolic hostnames: the domain sets generated for two distinct services, de-duplicated in listener order as
// BuildSidecarOutboundVirtualHosts does (shared vhdomains set, knownFQDN over all services), are disjoint, non-empty
// strings, and de-duplication never takes a service's own hostname away from it.
func VerifC14DomainKernel() {
	port := []int{80, 8080}[vp.Choice("port", 2)]
	// listener port 0 = HTTP_PROXY/UDS style listener: domains with and without port, hostnames NOT lower-cased by the
	// caller; for a numbered listener BuildSidecarOutboundVirtualHosts lower-cases the hostnames (servicesByName) first
	listenerPort := []int{port, 0}[vp.Choice("listenerPort", 2)]
	if listenerPort == 0 {
		verifC14Alphabet = "abA"
	} else {
		verifC14Alphabet = "ab"
	}
	a, b := verifC14Svc(0, true), verifC14Svc(1, true)
	// two services of the registry never share a hostname; hostnames that differ only in case are distinct services
	vp.Assume(a.Hostname != b.Hostname)
	nDNS := 2
	if vp.Tier() > 0 {
		nDNS = 4
	}
	node := &model.Proxy{Type: model.SidecarProxy, Metadata: &model.NodeMetadata{},
		DNSDomain: []string{"ns1.svc.cluster.local", "com", "ns2.svc.cluster.local", ""}[vp.Choice("dnsDomain", nDNS)]}
	vhdomains, knownFQDN := sets.String{}, sets.String{}
	for _, s := range []*model.Service{a, b} {
		knownFQDN.InsertAll(strings.ToLower(util.DomainName(string(s.Hostname), port)), strings.ToLower(string(s.Hostname)))
	}
	var all [][]string
	for _, s := range []*model.Service{a, b} {
		domains, alt := generateVirtualHostDomains(s, listenerPort, port, node)
		vp.Reach("generated")
		domains = dedupeDomains(domains, vhdomains, alt, knownFQDN)
		all = append(all, domains)
		own := false
		for _, d := range domains {
			vp.Assert(d != "", "domain-is-not-empty")
			own = vp.Or(own, d == string(s.Hostname))
		}
		// ... unless the two hostnames are the same name to Envoy (they differ only in case): then the first one wins
		sameToEnvoy := strings.ToLower(string(a.Hostname)) == strings.ToLower(string(b.Hostname))
		vp.Assert(vp.Or(own, sameToEnvoy), "service-keeps-its-own-hostname-as-a-domain")
	}
	// Envoy lower-cases domains before checking for duplicates
	for _, x := range all[0] {
		for _, y := range all[1] {
			vp.Assert(strings.ToLower(x) != strings.ToLower(y), "domains-of-distinct-services-are-disjoint")
		}
	}
	for i, x := range all[1] {
		for _, y := range all[1][i+1:] {
			vp.Assert(strings.ToLower(x) != strings.ToLower(y), "domains-of-one-virtual-host-are-distinct")
		}
	}
}

// Mutant twin: "no domain is ever produced twice even without de-duplication" must be refuted:
// the same service name in two namespaces shares every short domain.
func VerifC14Twin() {
	a, b := verifC14Svc(0, true), verifC14Svc(1, true)
	node := &model.Proxy{Type: model.SidecarProxy, DNSDomain: "ns1.svc.cluster.local", Metadata: &model.NodeMetadata{}}
	d1, _ := generateVirtualHostDomains(a, 80, 80, node)
	d2, _ := generateVirtualHostDomains(b, 80, 80, node)
	vp.Assume(a.Hostname != b.Hostname)
	for _, x := range d1 {
		for _, y := range d2 {
			vp.Assert(x != y, "twin")
		}
	}
}

// K2: cluster names within one CDS response are unique: normalizeClusters keeps the first cluster of every name,
// in order, and drops nothing else.
func VerifC14ClusterNames() {
	n := 3 + vp.Tier()
	var in []*cluster.Cluster
	for i := 0; i < n; i++ {
		in = append(in, &cluster.Cluster{Name: vp.StringIn(vp.Name("cluster", i)+".name", 2, "ab|")})
	}
	cb := &ClusterBuilder{req: &model.PushRequest{Push: model.NewPushContext()}, proxyID: "p"}
	out := cb.normalizeClusters(in)
	vp.Reach("normalized")
	for i, a := range out {
		for _, b := range out[i+1:] {
			vp.Assert(a.Name != b.Name, "cluster-names-are-unique")
		}
	}
	// every input is represented by the FIRST cluster of its name, order preserved
	pos := -1
	for _, c := range out {
		idx := -1
		for i, x := range in {
			if x == c {
				idx = i
			}
		}
		vp.Assert(idx > pos, "normalize-keeps-input-order")
		pos = idx
		for i, x := range in {
			if i < idx {
				vp.Assert(x.Name != c.Name, "normalize-keeps-the-first-cluster-of-a-name")
			}
		}
	}
	for _, x := range in {
		found := false
		for _, c := range out {
			found = vp.Or(found, c.Name == x.Name)
		}
		vp.Assert(found, "normalize-drops-only-duplicates")
	}
}
