package model

// C14-K3: gateway listeners. mergeGateways never puts two TLS servers with the same SNI host (and bind) behind one
// listening port - Envoy rejects a listener with two filter chains that have the same match - whatever ports the
// servers declare and however the gateway Service translates them.

import (
	"time"

	networking "istio.io/api/networking/v1alpha3"
	"istio.io/istio/pkg/config"
	"istio.io/istio/pkg/config/schema/gvk"
	vp "istio.io/istio/pkg/zzvp"
)

func VerifC14GatewayMerge() {
	// the gateway workload's Service: port 443 translated to 8443, or untranslated
	var instances []ServiceTarget
	if vp.Choice("portTranslation", 2) == 1 {
		instances = []ServiceTarget{{Service: &Service{Hostname: "gw.ns.svc", Attributes: ServiceAttributes{Namespace: "ns"}},
			Port: ServiceInstancePort{ServicePort: &Port{Name: "https", Port: 443, Protocol: "HTTPS"}, TargetPort: 8443}}}
	}
	n := 2 + vp.Tier()
	var gws []gatewayWithInstances
	for i := 0; i < n; i++ {
		p := vp.Name("server", i)
		srv := &networking.Server{
			Port:  &networking.Port{Number: []uint32{443, 8443, 9443}[vp.Choice(p+".port", 3)], Name: vp.Name("tls", i), Protocol: []string{"HTTPS", "TLS"}[vp.Choice(p+".protocol", 2)]},
			Hosts: [][]string{{"a.com"}, {"b.com"}, {"a.com", "b.com"}, {"*.com"}}[vp.Choice(p+".hosts", 4)],
			Bind:  []string{"", "1.1.1.1"}[vp.Choice(p+".bind", 2)],
			Tls:   &networking.ServerTLSSettings{Mode: networking.ServerTLSSettings_SIMPLE, ServerCertificate: "/c", PrivateKey: "/k"},
		}
		if srv.Port.Protocol == "TLS" {
			srv.Tls = &networking.ServerTLSSettings{Mode: networking.ServerTLSSettings_PASSTHROUGH}
		}
		gws = append(gws, gatewayWithInstances{
			gateway: config.Config{Meta: config.Meta{GroupVersionKind: gvk.Gateway, Name: vp.Name("gw", i), Namespace: "ns", CreationTimestamp: time.Unix(int64(2000+i), 0)},
				Spec: &networking.Gateway{Servers: []*networking.Server{srv}}},
			legacyGatewaySelector: true, instances: instances,
		})
	}
	proxy := &Proxy{Type: Router, ConfigNamespace: "ns", Metadata: &NodeMetadata{Namespace: "ns"}, ServiceTargets: instances}
	mg := mergeGateways(gws, proxy, NewPushContext())
	vp.Reach("merged")
	// per listening port and bind: SNI hosts of the TLS servers kept are pairwise distinct
	type lk struct {
		port uint32
		bind string
	}
	seen := map[lk]map[string]bool{}
	for sp, ms := range mg.MergedServers {
		k := lk{sp.Number, sp.Bind}
		if seen[k] == nil {
			seen[k] = map[string]bool{}
		}
		for _, s := range ms.Servers {
			if s.Tls == nil {
				continue
			}
			for _, h := range s.Hosts {
				vp.Assert(!seen[k][h], "sni-hosts-behind-one-listening-port-are-unique")
				seen[k][h] = true
			}
		}
	}
	// nothing is lost without reason: a server whose hosts collide with nobody's is kept
	vp.Assert(len(mg.MergedServers) > 0, "some-server-is-kept")
}

// C17 (determinism) through the same code: the order of the merged server ports - the order in which gateway
// listeners are emitted - does not depend on map iteration order, also when a Service port resolves to several target
// ports (Gateway API style selection).
func VerifC17GatewayPortOrder() {
	svc := &Service{Hostname: "gw.ns.svc", Attributes: ServiceAttributes{Namespace: "ns"}}
	instances := []ServiceTarget{
		{Service: svc, Port: ServiceInstancePort{ServicePort: &Port{Name: "https", Port: 443, Protocol: "HTTPS"}, TargetPort: 8443}},
		{Service: svc, Port: ServiceInstancePort{ServicePort: &Port{Name: "https", Port: 443, Protocol: "HTTPS"}, TargetPort: 9443}},
	}
	legacy := vp.Choice("legacySelector", 2) == 1
	mk := func() *MergedGateway {
		srv := &networking.Server{Port: &networking.Port{Number: 443, Name: "tls", Protocol: "HTTPS"}, Hosts: []string{"a.com"},
			Tls: &networking.ServerTLSSettings{Mode: networking.ServerTLSSettings_SIMPLE, ServerCertificate: "/c", PrivateKey: "/k"}}
		gws := []gatewayWithInstances{{
			gateway:               config.Config{Meta: config.Meta{GroupVersionKind: gvk.Gateway, Name: "gw", Namespace: "ns", CreationTimestamp: time.Unix(2000, 0)}, Spec: &networking.Gateway{Servers: []*networking.Server{srv}}},
			legacyGatewaySelector: legacy, instances: instances,
		}}
		return mergeGateways(gws, &Proxy{Type: Router, ConfigNamespace: "ns", Metadata: &NodeMetadata{Namespace: "ns"}, ServiceTargets: instances}, NewPushContext())
	}
	vp.PermuteMaps(true)
	a, b := mk(), mk()
	vp.Reach("merged-twice")
	vp.Assert(len(a.ServerPorts) == len(b.ServerPorts), "server-port-order-is-independent-of-map-order")
	for i := range a.ServerPorts {
		if i < len(b.ServerPorts) {
			vp.Assert(a.ServerPorts[i].Number == b.ServerPorts[i].Number, "server-port-order-is-independent-of-map-order")
		}
	}
}
