package endpoints

// C13-K4: the endpoints served for a cluster are the registries' latest members of the subset that may receive
// traffic: BuildClusterLoadAssignment (snapshotShards, port/subset filter, filterIstioEndpoint, generate) on a real
// EndpointIndex for symbolic health states, labels and port names.

import (
	corev3 "github.com/envoyproxy/go-control-plane/envoy/config/core/v3"
	networking "istio.io/api/networking/v1alpha3"
	meshconfig "istio.io/api/mesh/v1alpha1"

	"istio.io/istio/pilot/pkg/model"
	"istio.io/istio/pkg/cluster"
	"istio.io/istio/pkg/config"
	"istio.io/istio/pkg/config/protocol"
	vp "istio.io/istio/pkg/zzvp"
)

type verifEpShape struct {
	ep      *model.IstioEndpoint
	shard   int
	version string
	port    string
}

func verifServedEp(p string, i int) *verifEpShape {
	addr := []string{"10.0.0.1", "10.0.0.2", "10.0.0.3"}[i]
	version := []string{"v1", "v2"}[vp.Choice(p+".version", 2)]
	port := []string{"http", "other"}[vp.Choice(p+".port", 2)]
	h := vp.Int(p + ".health")
	vp.Assume(vp.And(h >= 1, h <= 4))
	ep := &model.IstioEndpoint{Addresses: []string{addr}, ServicePortName: port, EndpointPort: 8080, Labels: map[string]string{"version": version},
		HealthStatus: model.HealthStatus(h), Locality: model.Locality{ClusterID: "c1"}}
	return &verifEpShape{ep: ep, shard: vp.Choice(p+".shard", 2), version: version, port: port}
}

func VerifC13ServedEndpoints() {
	svc := &model.Service{Hostname: "svc.ns.svc.cluster.local", Ports: model.PortList{{Name: "http", Port: 80, Protocol: protocol.HTTP}},
		Attributes: model.ServiceAttributes{Name: "svc", Namespace: "ns"}}
	idx := model.NewEndpointIndex(model.DisabledCache{})
	shards := []model.ShardKey{{Cluster: "c1", Provider: "Kubernetes"}, {Cluster: "c2", Provider: "Kubernetes"}}
	n := 2 + vp.Tier()
	var eps []*verifEpShape
	byShard := [2][]*model.IstioEndpoint{}
	for i := 0; i < n; i++ {
		e := verifServedEp(vp.Name("ep", i), i)
		eps = append(eps, e)
		byShard[e.shard] = append(byShard[e.shard], e.ep)
	}
	for s, l := range byShard {
		if len(l) > 0 {
			idx.UpdateServiceEndpoints(shards[s], string(svc.Hostname), "ns", l, true)
		}
	}
	// subset v1 through a DestinationRule, or the whole service
	useSubset := vp.Choice("subset", 2) == 1
	var dr *model.ConsolidatedDestRule
	subsetName := ""
	if useSubset {
		subsetName = "v1"
		dr = model.VerifConsolidatedDR(&config.Config{Meta: config.Meta{Name: "dr", Namespace: "ns"},
			Spec: &networking.DestinationRule{Host: string(svc.Hostname), Subsets: []*networking.Subset{{Name: "v1", Labels: map[string]string{"version": "v1"}}}}})
	}
	push := model.NewPushContext()
	push.Mesh = &meshconfig.MeshConfig{RootNamespace: "istio-system"}
	model.VerifSingleNetwork(push)
	proxy := &model.Proxy{Type: model.SidecarProxy, ConfigNamespace: "ns", IPAddresses: []string{"10.9.9.9"},
		Metadata: &model.NodeMetadata{Namespace: "ns", ClusterID: cluster.ID("c1")}, SidecarScope: &model.SidecarScope{}}
	clusterName := model.BuildSubsetKey(model.TrafficDirectionOutbound, subsetName, svc.Hostname, 80)
	b := NewCDSEndpointBuilder(proxy, push, clusterName, model.TrafficDirectionOutbound, subsetName, svc.Hostname, 80, svc, dr)
	cla := b.BuildClusterLoadAssignment(idx)
	vp.Reach("built")
	vp.Assert(cla != nil && cla.ClusterName == clusterName, "the-requested-cluster-is-answered")
	for _, e := range eps {
		served, markedUnhealthy := 0, false
		for _, l := range cla.Endpoints {
			for _, lb := range l.LbEndpoints {
				if lb.GetEndpoint().GetAddress().GetSocketAddress().GetAddress() == e.ep.Addresses[0] {
					served++
					markedUnhealthy = lb.HealthStatus == corev3.HealthStatus_UNHEALTHY
				}
			}
		}
		// members of the subset on the cluster's port that are healthy - or unhealthy when the cluster is told about
		// unhealthy members (they are then marked so that they receive no traffic); Draining and Terminating
		// endpoints are never sent to an ordinary cluster
		member := vp.And(e.port == "http", !useSubset || e.version == "v1")
		okHealth := vp.Or(e.ep.HealthStatus == model.Healthy, vp.And(b.supportsUnhealthyEndpoints, e.ep.HealthStatus == model.UnHealthy))
		vp.Assert((served == 1) == vp.And(member, okHealth), "served-endpoints-are-the-live-members-of-the-subset")
		vp.Assert(served <= 1, "no-endpoint-is-served-twice")
		if served == 1 {
			vp.Assert(markedUnhealthy == (e.ep.HealthStatus == model.UnHealthy), "unhealthy-member-is-marked-unhealthy")
		}
	}
}
