package model

import (
	"istio.io/istio/pkg/cluster"
	"istio.io/istio/pkg/util/sets"
	vp "istio.io/istio/pkg/zzvp"
)

var (
	verifShardA = ShardKey{Cluster: cluster.ID("a"), Provider: "Kubernetes"}
	verifShardB = ShardKey{Cluster: cluster.ID("b"), Provider: "Kubernetes"}
	verifShards = []ShardKey{verifShardA, verifShardB}
	// two services that share one hostname in different namespaces (colliding ServiceEntries) - the index is
	// keyed hostname -> namespace -> shards, so this exercises both levels
	verifSvcs   = []string{"ns1", "ns2"}
)

func verifMkEp(addr, sa string, h HealthStatus) *IstioEndpoint {
	return &IstioEndpoint{Addresses: []string{addr}, ServicePortName: "http", EndpointPort: 80, ServiceAccount: sa, HealthStatus: h}
}

func verifEp(p string) *IstioEndpoint {
	h := Healthy
	if vp.Choice(p+".unhealthy", 2) == 1 {
		h = UnHealthy
	}
	return verifMkEp([]string{"10.0.0.1", "10.0.0.2"}[vp.Choice(p+".addr", 2)], []string{"sa1", "sa2"}[vp.Choice(p+".sa", 2)], h)
}

// a menu of registry reports: empty, one endpoint (variants in service account / health), two endpoints
func verifEpList(p string) []*IstioEndpoint {
	switch vp.Choice(p+".report", 5) {
	case 0:
		return nil
	case 1:
		return []*IstioEndpoint{verifMkEp("10.0.0.1", "sa1", Healthy)}
	case 2:
		return []*IstioEndpoint{verifMkEp("10.0.0.1", "sa2", Healthy)}
	case 3:
		return []*IstioEndpoint{verifMkEp("10.0.0.1", "sa1", UnHealthy)}
	}
	return []*IstioEndpoint{verifMkEp("10.0.0.1", "sa1", Healthy), verifMkEp("10.0.0.2", "sa2", Healthy)}
}

func verifSameList(a, b []*IstioEndpoint) bool {
	if len(a) != len(b) {
		return false
	}
	for i := range a {
		if a[i] != b[i] {
			return false
		}
	}
	return true
}

// K1: sequential specification of the endpoint index: after every operation the index holds, per service and
// registry shard, exactly the last reported list; nothing of a removed shard / deleted service remains.
func VerifC13Sequential() {
	idx := NewEndpointIndex(DisabledCache{})
	latest := map[string]map[ShardKey][]*IstioEndpoint{"ns1": {}, "ns2": {}}
	sawEmptyReport := map[string]bool{}
	sawRemoval := map[string]bool{}
	depth := 3 + vp.Tier()
	for step := 0; step < depth; step++ {
		p := vp.Name("s", step)
		switch vp.Choice(p+".op", 4) {
		case 0: // registry report
			sh := verifShards[vp.Choice(p+".shard", 2)]
			svc := verifSvcs[vp.Choice(p+".svc", 2)]
			eps := verifEpList(p)
			old := latest[svc][sh]
			_, known := latest[svc][sh]
			pt := idx.UpdateServiceEndpoints(sh, "svc1", svc, eps, true)
			if len(eps) == 0 {
				delete(latest[svc], sh)
				sawEmptyReport[svc] = true
			} else {
				latest[svc][sh] = eps
				sawEmptyReport[svc], sawRemoval[svc] = false, false // a non-empty report recomputes the accounts
			}
			// push type: a visible change must not be swallowed
			if pt == NoPush {
				vp.Assert(known && len(old) == len(eps), "no-push-only-when-membership-unchanged")
			}
			if !known && len(eps) > 0 {
				servedBefore := false
				_ = servedBefore
			}
		case 1: // service deleted in one registry
			sh := verifShards[vp.Choice(p+".shard", 2)]
			svc := verifSvcs[vp.Choice(p+".svc", 2)]
			idx.DeleteServiceShard(sh, "svc1", svc, false)
			delete(latest[svc], sh)
			sawRemoval[svc] = true
		case 2: // registry (cluster) removed
			sh := verifShards[vp.Choice(p+".shard", 2)]
			idx.DeleteShard(sh)
			delete(latest["ns1"], sh)
			delete(latest["ns2"], sh)
			sawRemoval["ns1"], sawRemoval["ns2"] = true, true
		case 3: // prune after resync: keep only svc1
			sh := verifShards[vp.Choice(p+".shard", 2)]
			idx.PruneShard(sh, map[string]sets.String{"svc1": sets.New("ns1")})
			delete(latest["ns2"], sh)
			sawRemoval["ns2"] = true
		}
		vp.Reach("step")
		for _, svc := range verifSvcs {
			shards, ok := idx.ShardsForService("svc1", svc)
			for _, sh := range verifShards {
				want, has := latest[svc][sh]
				if has {
					vp.Assert(ok && verifSameList(shards.Shards[sh], want), "index-holds-latest-report")
				} else if ok {
					vp.Assert(len(shards.Shards[sh]) == 0, "nothing-remains-of-removed-report")
				}
			}
			if ok {
				// service accounts cover what is stored (an empty report deliberately keeps keys and accounts
				// to avoid a full push for flapping endpoints, so only the lower bound is required there)
				for _, sa := range []string{"sa1", "sa2"} {
					in := false
					for _, sh := range verifShards {
						for _, e := range latest[svc][sh] {
							if e.ServiceAccount == sa {
								in = true
							}
						}
					}
					if in {
						vp.Assert(shards.ServiceAccounts.Contains(sa), "service-accounts-cover-stored-endpoints")
					} else if !sawEmptyReport[svc] && !sawRemoval[svc] {
						vp.Assert(!shards.ServiceAccounts.Contains(sa), "no-service-account-without-an-endpoint")
					} else if !sawEmptyReport[svc] {
						vp.Assert(!shards.ServiceAccounts.Contains(sa), "no-service-account-of-a-removed-registry-remains")
					}
				}
			}
		}
	}
}

// K2: linearizability of a registry report against a concurrent delete / cluster removal:
// in either sequential order the report is in the index afterwards, so it must be after any interleaving.
func VerifC13ConcurrentUpdateDelete() {
	idx := NewEndpointIndex(DisabledCache{})
	if vp.Choice("preExisting", 2) == 1 {
		idx.UpdateServiceEndpoints(verifShardB, "svc1", "ns", []*IstioEndpoint{{Addresses: []string{"10.0.0.9"}, ServicePortName: "http", EndpointPort: 80, ServiceAccount: "sa1"}}, true)
	}
	report := []*IstioEndpoint{{Addresses: []string{"10.0.0.1"}, ServicePortName: "http", EndpointPort: 80, ServiceAccount: "sa1"}}
	done := make(chan int, 2)
	go func() {
		idx.UpdateServiceEndpoints(verifShardA, "svc1", "ns", report, true)
		done <- 1
	}()
	other := vp.Choice("concurrentOp", 3)
	go func() {
		switch other {
		case 0:
			idx.DeleteServiceShard(verifShardB, "svc1", "ns", false) // service deleted in registry b
		case 1:
			idx.DeleteShard(verifShardB) // registry b removed
		case 2:
			idx.PruneShard(verifShardB, map[string]sets.String{}) // registry b resynced without the service
		}
		done <- 2
	}()
	<-done
	<-done
	vp.Reach("both-done")
	shards, ok := idx.ShardsForService("svc1", "ns")
	vp.Assert(ok, "reporting-registrys-service-is-indexed")
	if ok {
		vp.Assert(verifSameList(shards.Shards[verifShardA], report), "latest-report-is-not-lost")
		vp.Assert(len(shards.Shards[verifShardB]) == 0, "removed-registry-leaves-nothing")
	}
}

// Mutant twin: "a report for a known shard never triggers a push" must be refuted.
func VerifC13Twin() {
	idx := NewEndpointIndex(DisabledCache{})
	idx.UpdateServiceEndpoints(verifShardA, "svc1", "ns", []*IstioEndpoint{verifEp("a")}, true)
	pt := idx.UpdateServiceEndpoints(verifShardA, "svc1", "ns", []*IstioEndpoint{verifEp("b")}, true)
	vp.Assert(pt == NoPush, "twin")
}

// K3: the push decision of a registry report. A report may be swallowed (NoPush) only if it changes nothing a proxy is
// served: no endpoint that was served disappears, no endpoint that stays changes, and every new endpoint is one that
// is not served (unhealthy without SendUnhealthyEndpoints).
func verifSymEp(p string) *IstioEndpoint {
	ep := verifMkEp([]string{"10.0.0.1", "10.0.0.2", "10.0.0.3"}[vp.Choice(p+".addr", 3)], "sa1", Healthy)
	ep.HealthStatus = HealthStatus(vp.IteInt(vp.Bool(p+".healthy"), int(Healthy), int(UnHealthy)))
	ep.SendUnhealthyEndpoints = vp.Bool(p + ".sendUnhealthy")
	w := vp.Uint32(p + ".weight")
	vp.Assume(w <= 2)
	ep.LbWeight = w
	return ep
}

func verifSymEpList(p string, n int) []*IstioEndpoint {
	var out []*IstioEndpoint
	for i := 0; i < n; i++ {
		ep := verifSymEp(vp.Name(p, i))
		for _, o := range out {
			if o.Addresses[0] == ep.Addresses[0] {
				vp.Assume(false) // a report lists an address once
			}
		}
		out = append(out, ep)
	}
	return out
}

func verifServed(ep *IstioEndpoint) bool {
	return vp.Or(ep.HealthStatus != UnHealthy, ep.SendUnhealthyEndpoints)
}

func VerifC13PushDecision() {
	old := verifSymEpList("old", 1+vp.Choice("old.n", 2))
	incoming := verifSymEpList("new", vp.Choice("new.n", 3))
	idx := NewEndpointIndex(DisabledCache{})
	sh := verifShards[0]
	idx.UpdateServiceEndpoints(sh, "svc1", "ns1", old, true)
	pt := idx.UpdateServiceEndpoints(sh, "svc1", "ns1", incoming, true)
	vp.Reach("decided")
	mustPush := false
	for _, o := range old {
		var same *IstioEndpoint
		for _, n := range incoming {
			if n.Addresses[0] == o.Addresses[0] {
				same = n
			}
		}
		if same == nil {
			mustPush = vp.Or(mustPush, verifServed(o)) // a served endpoint is withdrawn
		} else {
			changed := vp.Or3(same.HealthStatus != o.HealthStatus, same.LbWeight != o.LbWeight, same.SendUnhealthyEndpoints != o.SendUnhealthyEndpoints)
			mustPush = vp.Or(mustPush, vp.And(changed, vp.Or(verifServed(o), verifServed(same))))
		}
	}
	for _, n := range incoming {
		isNew := true
		for _, o := range old {
			if n.Addresses[0] == o.Addresses[0] {
				isNew = false
			}
		}
		if isNew {
			mustPush = vp.Or(mustPush, verifServed(n))
		}
	}
	vp.Assert(vp.Implies(mustPush, pt != NoPush), "a-report-that-changes-what-is-served-is-pushed")
	// whatever the decision, the index holds the report
	got, _ := idx.ShardsForService("svc1", "ns1")
	if len(incoming) > 0 {
		vp.Assert(got != nil && verifSameList(got.Shards[sh], incoming), "index-holds-the-report-whatever-the-push-decision")
	}
}
