package controller

// C15 (thin): the Kubernetes registry's hand-written caches converge to a function of the current objects.
//  K1 PodCache (pod.go onEvent/addPod/deleteIP/needResync): after any history of pod lifecycle events, with
//     informer coalescing, the IP index answers getPodsByIP exactly with the pods that currently exist, are
//     ready, non-terminal, non-terminating and own that IP; endpoints that waited for a pod are re-queued.
//  K2 endpointSliceCache (endpointslice.go update/delete/get): after any order of slice updates/deletes the
//     cache holds the last content of every live slice and get() returns each (ip, port) once.

import (
	v1 "k8s.io/api/core/v1"
	metav1 "k8s.io/apimachinery/pkg/apis/meta/v1"
	"k8s.io/apimachinery/pkg/types"

	"istio.io/istio/pilot/pkg/model"
	"istio.io/istio/pkg/config/host"
	"istio.io/istio/pkg/kube/kclient"
	vp "istio.io/istio/pkg/zzvp"
)

// ---------------------------------------------------------------- K1 pod index

// the informer's store: what pods.Get answers
type verifPods struct {
	kclient.Client[*v1.Pod] // nil: only Get is used
	cur                     map[string]*v1.Pod
}

func (p *verifPods) Get(name, namespace string) *v1.Pod { return p.cur[name] }

type verifPodState struct {
	exists      bool
	gen         int    // incarnation (UID)
	ip          string // "" before assignment / after eviction
	hadIP       string // the IP assigned to this incarnation ("" if none yet)
	ready       bool   // symbolic
	phase       int    // symbolic: 0 Pending, 1 Running, 2 Failed
	terminating bool   // symbolic
}

func verifPhase(p int) v1.PodPhase {
	return v1.PodPhase(vp.IteString(p == 0, string(v1.PodPending), vp.IteString(p == 1, string(v1.PodRunning), string(v1.PodFailed))))
}

func (s *verifPodState) object(name string) *v1.Pod {
	p := &v1.Pod{ObjectMeta: metav1.ObjectMeta{Name: name, Namespace: "ns", UID: types.UID(vp.Name(name+"-", s.gen))}}
	p.Status.PodIP = s.ip
	p.Status.Phase = verifPhase(s.phase)
	p.Status.Conditions = []v1.PodCondition{{Type: v1.PodReady, Status: v1.ConditionStatus(vp.IteString(s.ready, string(v1.ConditionTrue), string(v1.ConditionFalse)))}}
	if s.terminating {
		p.DeletionTimestamp = &metav1.Time{}
	}
	return p
}

var verifIPs = []string{"10.0.0.1", "10.0.0.2"}

// one lifecycle transition of the pod, valid for Kubernetes: an incarnation's IP is assigned once and never changes
// (it may be cleared by an eviction), a terminal phase is final, deletionTimestamp is never unset.
func (s *verifPodState) step(p string) {
	if !s.exists {
		// created (a new incarnation), possibly already with IP / ready if the informer saw it late
		*s = verifPodState{exists: true, gen: s.gen + 1}
	} else if vp.Choice(p+".delete", 2) == 1 {
		if vp.Choice(p+".recreate", 2) == 1 {
			*s = verifPodState{exists: true, gen: s.gen + 1} // delete + create under the same name
		} else {
			*s = verifPodState{gen: s.gen}
			return
		}
	}
	evicted := false
	switch vp.Choice(p+".ip", 3) {
	case 1:
		if s.hadIP == "" {
			s.hadIP = verifIPs[vp.Choice(p+".ipv", 2)]
		}
		s.ip = s.hadIP
	case 2:
		if s.hadIP != "" {
			s.ip = "" // eviction cleared the IP
			evicted = true
		}
	}
	// status (symbolic): a terminal phase is final, an evicted pod is Failed
	ph := vp.Int(p + ".phase")
	vp.Assume(vp.And(ph >= 0, ph <= 2))
	s.phase = vp.IteInt(s.phase == 2 || evicted, 2, ph)
	s.ready = vp.Bool(p + ".ready")
	// a pod without IP or not running cannot be ready
	vp.Assume(vp.Implies(s.ready, vp.And(s.ip != "", s.phase == 1)))
	s.terminating = vp.Or(s.terminating, vp.Bool(p+".terminating"))
}

func (s *verifPodState) indexed() bool {
	return vp.And3(s.exists && s.ip != "", vp.And(s.phase != 2, !s.terminating), s.ready)
}

func VerifC15PodIndex() { verifPodHistory(3+vp.Tier(), false) }

// endpoint-before-pod: histories are one step shorter, endpoints wait (and stop waiting) before the pods show up
func VerifC15EndpointBeforePod() { verifPodHistory(2+vp.Tier(), true) }

// IP reuse: after the first lifecycle step a slice that lists the watched IP for pod p1 arrives while p1 is unknown to
// the pod informer (another pod may still hold the address); two more steps follow
func VerifC15IPReuse() { verifPodHistoryMode(3, false, true) }

func verifPodHistory(steps int, withEndpoints bool) { verifPodHistoryMode(steps, withEndpoints, false) }

// hostNetwork pods: two live pods MAY hold the same address at the same time
var verifSharedIPs = false

func VerifC15SharedIP() {
	verifSharedIPs = true
	verifPodHistoryMode(3, false, false)
}

func verifPodHistoryMode(steps int, withEndpoints bool, sliceAfterFirstStep bool) {
	store := &verifPods{cur: map[string]*v1.Pod{}}
	var requeued []types.NamespacedName
	pc := newPodCache(&Controller{}, store, func(k types.NamespacedName) { requeued = append(requeued, k) })
	names := []string{"p0", "p1"}
	states := []*verifPodState{{}, {}}
	delivered := []*v1.Pod{nil, nil} // last object the handler saw (nil: handler believes the pod does not exist)
	// endpoints (slices) that arrived before their pod and wait for IP verifIPs[0]; some stop waiting again
	// (the slice dropped the address or was deleted) before the pod shows up
	epA, epB := types.NamespacedName{Namespace: "ns", Name: "slice-a"}, types.NamespacedName{Namespace: "ns", Name: "slice-b"}
	waiting := map[types.NamespacedName]bool{}
	scenario := 0
	if withEndpoints {
		scenario = 1 + vp.Choice("endpointsWaiting", 4)
	}
	switch scenario {
	case 1:
		pc.queueEndpointEventOnPodArrival(epA, verifIPs[0])
		waiting[epA] = true
	case 2:
		pc.queueEndpointEventOnPodArrival(epA, verifIPs[0])
		pc.queueEndpointEventOnPodArrival(epB, verifIPs[0])
		waiting[epA], waiting[epB] = true, true
	case 3:
		pc.queueEndpointEventOnPodArrival(epA, verifIPs[0])
		pc.queueEndpointEventOnPodArrival(epB, verifIPs[0])
		pc.endpointDeleted(epA, verifIPs[0])
		waiting[epB] = true
	case 4:
		pc.queueEndpointEventOnPodArrival(epA, verifIPs[0])
		pc.queueEndpointEventOnPodArrival(epB, verifIPs[0])
		pc.endpointDeleted(epB, verifIPs[0])
		pc.endpointDeleted(epA, verifIPs[0])
	}
	wasIndexed := []bool{false, false} // is the pod currently indexed under verifIPs[0]
	lateRegistered := false
	deliver := func(i int) {
		cur := store.cur[names[i]]
		old := delivered[i]
		if cur == old {
			return // nothing new to deliver (no artificial resync: it would repair a damaged index)
		}
		switch {
		case old == nil && cur != nil:
			_ = pc.onEvent(nil, cur, model.EventAdd)
		case old != nil && cur != nil:
			_ = pc.onEvent(old, cur, model.EventUpdate)
		case old != nil && cur == nil:
			// the delete notification carries the last state the informer knew
			_ = pc.onEvent(nil, old, model.EventDelete)
		}
		delivered[i] = cur
		// did this event index the pod under the watched IP (it was not indexed there before)?
		now := false
		for _, p := range pc.getPodsByIP(verifIPs[0]) {
			if p.Name == names[i] {
				now = true
			}
		}
		if now && !wasIndexed[i] {
			// a pod arrived on the IP: every endpoint waiting for it has been re-queued, exactly once, nobody else has
			for _, ep := range []types.NamespacedName{epA, epB} {
				n := 0
				for _, r := range requeued {
					if r == ep {
						n++
					}
				}
				if waiting[ep] {
					vp.Assert(n == 1, "endpoint-waiting-for-a-pod-is-requeued-once-when-the-pod-is-indexed")
				} else {
					vp.Assert(n == 0, "endpoint-that-stopped-waiting-is-not-requeued")
				}
			}
			vp.Assert(len(pc.needResync) == 0, "nothing-keeps-waiting-for-an-indexed-ip")
			waiting, requeued = map[types.NamespacedName]bool{}, nil
		}
		wasIndexed[i] = now
	}
	for t := 0; t < steps; t++ {
		// IP reuse: a slice that already lists the watched IP for pod p1 arrives while p1 is unknown to the pod
		// informer - possibly while ANOTHER pod still holds the address. It waits for the pod on that IP.
		arrives := withEndpoints && vp.Choice(vp.Name("step", t)+".sliceArrives", 2) == 1 || sliceAfterFirstStep && t == 1
		if arrives && !lateRegistered && !waiting[epA] && store.cur[names[1]] == nil {
			pc.queueEndpointEventOnPodArrival(epA, verifIPs[0])
			waiting[epA] = true
			lateRegistered = true
		}
		i := vp.Choice(vp.Name("step", t)+".pod", 2)
		st := states[i]
		st.step(vp.Name("step", t))
		// two live pods never hold the same IP at the same time
		o := states[1-i]
		if !verifSharedIPs {
			vp.Assume(!(st.exists && o.exists && st.ip != "" && st.ip == o.ip))
		}
		if st.exists {
			store.cur[names[i]] = st.object(names[i])
		} else {
			delete(store.cur, names[i])
		}
		// the informer may coalesce: the handler is not necessarily called for every state
		if vp.Tier() == 0 || vp.Choice(vp.Name("step", t)+".deliver", 2) == 1 {
			deliver(i)
		}
	}
	// quiescence: the informer has delivered the final state of every pod
	deliver(0)
	deliver(1)
	vp.Reach("quiescent")
	for _, ip := range verifIPs {
		got := pc.getPodsByIP(ip)
		for i, st := range states {
			want := vp.And(st.indexed(), st.ip == ip)
			has := false
			for _, p := range got {
				if p.Name == names[i] {
					has = true
				}
			}
			vp.Assert(has == want, "ip-index-equals-the-ready-pods-that-own-the-ip")
		}
	}
	// internal maps are mutually consistent and hold nothing for pods that are gone
	for i, st := range states {
		key := types.NamespacedName{Namespace: "ns", Name: names[i]}
		ip, f := pc.ipByPods[key]
		if f {
			vp.Assert(pc.podsByIP[ip].Contains(key), "reverse-index-agrees-with-ip-index")
		}
		if !st.exists {
			vp.Assert(!f, "nothing-remains-of-a-deleted-pod")
		}
	}
}

// ---------------------------------------------------------------- K2 endpoint slice cache

func verifEndpoint(p string) *model.IstioEndpoint {
	ip := verifIPs[vp.Choice(p+".ip", 2)]
	return &model.IstioEndpoint{Addresses: []string{ip}, ServicePortName: "http", EndpointPort: 80,
		HealthStatus: model.HealthStatus(vp.IteInt(vp.Bool(p+".healthy"), int(model.Healthy), int(model.UnHealthy)))}
}

func VerifC15SliceCache() {
	c := newEndpointSliceCache()
	const h = host.Name("svc.ns.svc.cluster.local")
	slices := []string{"s0", "s1"}
	last := map[string][]*model.IstioEndpoint{}
	steps := 3 + vp.Tier()
	for t := 0; t < steps; t++ {
		p := vp.Name("op", t)
		s := slices[vp.Choice(p+".slice", 2)]
		switch vp.Choice(p+".kind", 3) {
		case 0:
			c.Delete(h, s)
			delete(last, s)
		case 1:
			eps := []*model.IstioEndpoint{verifEndpoint(p + ".e0")}
			c.Update(h, s, eps)
			last[s] = eps
		default:
			eps := []*model.IstioEndpoint{verifEndpoint(p + ".e0"), verifEndpoint(p + ".e1")}
			c.Update(h, s, eps)
			last[s] = eps
		}
	}
	vp.Reach("done")
	vp.PermuteMaps(true)
	got := c.Get(h)
	// every (ip, port) of a live slice is returned exactly once, and nothing else
	for _, ip := range verifIPs {
		want := false
		for _, eps := range last {
			for _, e := range eps {
				if e.Addresses[0] == ip {
					want = true
				}
			}
		}
		n := 0
		for _, e := range got {
			if e.Addresses[0] == ip {
				n++
			}
		}
		if want {
			vp.Assert(n == 1, "every-live-endpoint-address-is-returned-exactly-once")
		} else {
			vp.Assert(n == 0, "nothing-remains-of-deleted-slices")
		}
	}
	vp.Assert(c.Has(h) == (len(last) > 0), "service-is-known-iff-a-slice-is-live")
	// determinism: what is returned for an address held by two live slices does not depend on map iteration order
	again := c.Get(h)
	for _, a := range got {
		for _, b := range again {
			if a.Addresses[0] == b.Addresses[0] {
				vp.Assert(a.HealthStatus == b.HealthStatus, "duplicate-address-across-slices-resolves-deterministically")
			}
		}
	}
}

// Mutant twin: "a pod that turned not-ready stays indexed" must be refuted.
func VerifC15Twin() {
	store := &verifPods{cur: map[string]*v1.Pod{}}
	pc := newPodCache(&Controller{}, store, func(types.NamespacedName) {})
	st := &verifPodState{exists: true, gen: 1, ip: verifIPs[0], hadIP: verifIPs[0], ready: true, phase: 1}
	a := st.object("p0")
	store.cur["p0"] = a
	_ = pc.onEvent(nil, a, model.EventAdd)
	st.ready = vp.Bool("ready")
	b := st.object("p0")
	store.cur["p0"] = b
	_ = pc.onEvent(a, b, model.EventUpdate)
	vp.Assert(len(pc.getPodsByIP(verifIPs[0])) == 1, "twin")
}
