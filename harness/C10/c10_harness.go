package authn

import (
	"time"

	meshconfig "istio.io/api/mesh/v1alpha1"
	"istio.io/api/security/v1beta1"
	typev1beta1 "istio.io/api/type/v1beta1"
	"istio.io/istio/pilot/pkg/model"
	"istio.io/istio/pkg/config"
	"istio.io/istio/pkg/config/labels"
	"istio.io/istio/pkg/config/schema/gvk"
	vp "istio.io/istio/pkg/zzvp"
)

const (
	verifRoot = "istio-system"
	verifNsA  = "ns-a"
	verifNsB  = "ns-b"
	verifPort = uint32(8080)
)

type verifPA struct {
	ns         string
	selector   int // 0 none, 1 matches workload, 2 does not match
	mtlsNil    bool
	mode       int32 // symbolic 0..3 (UNSET, DISABLE, PERMISSIVE, STRICT)
	hasPort    bool
	portNil    bool
	portMode   int32
	created    time.Time
	createdNs  int64
	name       string
	cfg        config.Config
}

var verifNamespaces = []string{verifRoot, verifNsA, verifNsB}

func verifMakePA(i int) *verifPA {
	p := &verifPA{name: vp.Name("pa", i)}
	pre := p.name
	p.ns = verifNamespaces[vp.Choice(pre+".ns", 3)]
	p.selector = vp.Choice(pre+".selector", 3)
	p.mtlsNil = vp.Choice(pre+".mtlsNil", 2) == 1
	spec := &v1beta1.PeerAuthentication{}
	if !p.mtlsNil {
		p.mode = vp.Int32(pre + ".mode")
		vp.Assume(vp.And(p.mode >= 0, p.mode <= 3))
		spec.Mtls = &v1beta1.PeerAuthentication_MutualTLS{Mode: v1beta1.PeerAuthentication_MutualTLS_Mode(p.mode)}
	}
	switch p.selector {
	case 0:
		// "no selector" is written either by omitting it or as a present-but-empty one (selector: {}): the same policy
		// (the first two policies carry the choice; a third one, thorough tier, is written the usual way)
		if i < 2 && vp.Choice(pre+".emptySelector", 2) == 1 {
			spec.Selector = &typev1beta1.WorkloadSelector{}
		}
	case 1:
		spec.Selector = &typev1beta1.WorkloadSelector{MatchLabels: map[string]string{"app": "x"}}
	case 2:
		spec.Selector = &typev1beta1.WorkloadSelector{MatchLabels: map[string]string{"app": "y"}}
	}
	if p.selector == 1 {
		p.hasPort = vp.Choice(pre+".hasPort", 2) == 1
		if p.hasPort {
			p.portNil = vp.Choice(pre+".portNil", 2) == 1
			if p.portNil {
				spec.PortLevelMtls = map[uint32]*v1beta1.PeerAuthentication_MutualTLS{verifPort: nil}
			} else {
				p.portMode = vp.Int32(pre + ".portMode")
				vp.Assume(vp.And(p.portMode >= 0, p.portMode <= 3))
				spec.PortLevelMtls = map[uint32]*v1beta1.PeerAuthentication_MutualTLS{verifPort: {Mode: v1beta1.PeerAuthentication_MutualTLS_Mode(p.portMode)}}
			}
		}
	}
	p.created = vp.Time(pre + ".created")
	p.createdNs = p.created.UnixNano()
	p.cfg = config.Config{
		Meta: config.Meta{GroupVersionKind: gvk.PeerAuthentication, Name: p.name, Namespace: p.ns, CreationTimestamp: p.created},
		Spec: spec,
	}
	return p
}

// reference conversion of the API enum to the internal mode
func verifConv(m int32) model.MutualTLSMode {
	// UNSET(0) is never converted by callers; DISABLE=1, PERMISSIVE=2, STRICT=3
	return model.MutualTLSMode(vp.IteInt(m == 1, int(model.MTLSDisable), vp.IteInt(m == 2, int(model.MTLSPermissive), vp.IteInt(m == 3, int(model.MTLSStrict), int(model.MTLSUnknown)))))
}

// older: strict precedence among policies of one level: creation time, then name (names are distinct).
func verifOlder(a, b *verifPA) bool {
	return vp.Or(a.createdNs < b.createdNs, vp.And(a.createdNs == b.createdNs, a.name < b.name))
}

// verifReference computes the effective mode for the workload (ns-a, app=x) and for verifPort,
// straight from the API documentation.
func verifReference(ps []*verifPA) (mode model.MutualTLSMode, portMode model.MutualTLSMode, hasWorkload bool, nsMode model.MutualTLSMode) {
	pick := func(level func(p *verifPA) bool) *verifPA {
		var best *verifPA
		for _, p := range ps {
			if !level(p) {
				continue
			}
			if best == nil || verifOlder(p, best) { // forks on the (symbolic) age comparison
				best = p
			}
		}
		return best
	}
	mesh := pick(func(p *verifPA) bool { return p.ns == verifRoot && p.selector == 0 })
	nsP := pick(func(p *verifPA) bool { return p.ns == verifNsA && p.selector == 0 })
	wl := pick(func(p *verifPA) bool { return p.ns == verifNsA && p.selector == 1 })
	unset := func(p *verifPA) bool { return vp.Or(p.mtlsNil, p.mode == 0) }
	mode = model.MTLSPermissive
	if mesh != nil {
		mode = model.MutualTLSMode(vp.IteInt(unset(mesh), int(mode), int(verifConv(mesh.mode))))
	}
	if nsP != nil {
		mode = model.MutualTLSMode(vp.IteInt(unset(nsP), int(mode), int(verifConv(nsP.mode))))
	}
	nsMode = mode
	if wl != nil {
		mode = model.MutualTLSMode(vp.IteInt(unset(wl), int(mode), int(verifConv(wl.mode))))
	}
	portMode = mode
	if wl != nil && wl.hasPort {
		portUnset := vp.Or(wl.portNil, wl.portMode == 0)
		portMode = model.MutualTLSMode(vp.IteInt(portUnset, int(mode), int(verifConv(wl.portMode))))
	}
	return mode, portMode, wl != nil, nsMode
}

func verifNPolicies() int {
	if vp.Tier() == 1 {
		return 3
	}
	return 2
}

func verifBuild(ps []*verifPA, perm int) *model.AuthenticationPolicies {
	var cfgs []config.Config
	order := [][]int{{0, 1, 2}, {0, 2, 1}, {1, 0, 2}, {1, 2, 0}, {2, 0, 1}, {2, 1, 0}}[perm]
	for _, i := range order {
		if i < len(ps) {
			cfgs = append(cfgs, ps[i].cfg)
		}
	}
	env := model.VerifEnv(&meshconfig.MeshConfig{RootNamespace: verifRoot},
		&model.VerifStore{Configs: map[config.GroupVersionKind][]config.Config{gvk.PeerAuthentication: cfgs}})
	return model.VerifInitAuthenticationPolicies(env)
}

func verifCompose(pol *model.AuthenticationPolicies) MergedPeerAuthentication {
	matcher := model.WorkloadPolicyMatcher{WorkloadNamespace: verifNsA, WorkloadLabels: labels.Instance{"app": "x", "version": "v1"}, IsWaypoint: false}
	return ComposePeerAuthentication(verifRoot, pol.GetPeerAuthenticationsForWorkload(matcher))
}

// K1+K2+K3: real snapshot construction + selection + composition equals the documented precedence,
// for every insertion order; the client-side namespace mode agrees when no workload policy applies.
func VerifC10Precedence() {
	n := verifNPolicies()
	var ps []*verifPA
	for i := 0; i < n; i++ {
		ps = append(ps, verifMakePA(i))
	}
	nperm := 2
	if n == 3 {
		nperm = 6
	}
	perm := vp.Choice("insertionOrder", nperm)
	if n == 2 && perm == 1 {
		perm = 2 // {1,0,2}
	}
	pol := verifBuild(ps, perm)
	got := verifCompose(pol)
	vp.Reach("composed")
	wantMode, wantPort, hasWl, wantNs := verifReference(ps)
	vp.Assert(got.Mode == wantMode, "effective-mode-follows-precedence")
	applier := policyApplier{consolidatedPeerPolicy: got}
	vp.Assert(applier.GetMutualTLSModeForPort(verifPort) == wantPort, "port-mode-follows-precedence")
	vp.Assert(applier.GetMutualTLSModeForPort(9999) == wantMode, "other-port-inherits-workload-mode")
	// client side (auto mTLS) uses the namespace mode; it must agree whenever no workload policy applies
	cl := pol.GetNamespaceMutualTLSMode(verifNsA)
	if cl == model.MTLSUnknown {
		cl = model.MTLSPermissive
	}
	vp.Assert(cl == wantNs, "client-side-namespace-mode-agrees")
	if !hasWl {
		vp.Assert(cl == got.Mode, "client-and-server-agree-without-workload-policy")
	}
}

// Mutant twin: newest-wins must be refuted.
func VerifC10Twin() {
	a, b := verifMakePA(0), verifMakePA(1)
	vp.Assume(a.ns == verifNsA && b.ns == verifNsA && a.selector == 0 && b.selector == 0)
	vp.Assume(!a.mtlsNil && !b.mtlsNil)
	vp.Assume(vp.And(a.mode != 0, b.mode != 0))
	pol := verifBuild([]*verifPA{a, b}, 0)
	got := verifCompose(pol)
	newest := vp.IteInt(verifOlder(a, b), int(verifConv(b.mode)), int(verifConv(a.mode)))
	vp.Assert(int(got.Mode) == newest, "twin")
}
