package xds

import (
	"istio.io/istio/pilot/pkg/model"
	"istio.io/istio/pkg/config/schema/kind"
	"istio.io/istio/pkg/util/sets"
	vp "istio.io/istio/pkg/zzvp"
)

var verifQKeys = []model.ConfigKey{
	{Kind: kind.ServiceEntry, Name: "a", Namespace: "ns1"},
	{Kind: kind.VirtualService, Name: "b", Namespace: "ns1"},
	{Kind: kind.DestinationRule, Name: "c", Namespace: "ns2"},
}

type verifOwed struct {
	keys   [3]bool
	forced bool // symbolic
	any    bool
	newest *model.PushContext
}

// K2: bounded model check of the per-proxy push queue from the empty queue.
// Operations are explored exhaustively; Forced flags are symbolic.
func VerifC02Queue() {
	depth, ncons := 4, 2
	if vp.Tier() == 1 {
		depth, ncons = 6, 3
	}
	verifQueueBMC(depth, ncons, nil)
}

// K2 from reachable non-empty states: connection 0 has a push in flight (optionally with one request parked
// behind it), then the same exhaustive exploration. This reaches the merge-while-in-flight logic at small depth.
func VerifC02QueueInFlight() {
	depth, ncons := 4, 2
	if vp.Tier() == 1 {
		depth = 5
	}
	prelude := [][]int{{0, 6}, {0, 6, 1}, {1, 6, 2}}[vp.Choice("prelude", 3)]
	verifQueueBMC(depth, ncons, prelude)
}

func verifQueueBMC(depth, ncons int, prelude []int) {
	q := NewPushQueue()
	cons := []*Connection{{}, {}, {}}[:ncons]
	pushes := []*model.PushContext{{PushVersion: "p0"}, {PushVersion: "p1"}, {PushVersion: "p2"}}
	// a menu of requests; the objects are shared between connections like StartPush does
	forced := []bool{vp.Bool("r0.forced"), vp.Bool("r1.forced"), vp.Bool("r2.forced")}
	menuKeys := [][3]bool{{true, false, false}, {false, true, false}, {true, false, true}}
	var menu []*model.PushRequest
	for i := range menuKeys {
		ks := sets.New[model.ConfigKey]()
		for j, in := range menuKeys[i] {
			if in {
				ks.Insert(verifQKeys[j])
			}
		}
		menu = append(menu, &model.PushRequest{ConfigsUpdated: ks, Forced: forced[i], Push: pushes[i], Reason: model.NewReasonStats(model.ConfigUpdate)})
	}
	owed := make([]verifOwed, ncons)
	inflight := make([]bool, ncons)
	var order []int // ghost FIFO of queued connections
	indexOf := func(c *Connection) int {
		for i := range cons {
			if cons[i] == c {
				return i
			}
		}
		return -1
	}
	queued := func(ci int) bool {
		for _, x := range order {
			if x == ci {
				return true
			}
		}
		return false
	}
	for step := 0; step < depth+len(prelude); step++ {
		var op int
		if step < len(prelude) {
			op = prelude[step] // with 2 connections and 3 requests: 0..5 Enqueue(c,r), 6 Dequeue, 7.. MarkDone(c)
		} else {
			op = vp.Choice(vp.Name("op", step-len(prelude)), ncons*len(menu)+1+ncons)
		}
		switch {
		case op < ncons*len(menu): // Enqueue(c, r)
			ci, ri := op/len(menu), op%len(menu)
			q.Enqueue(cons[ci], menu[ri])
			for j := 0; j < 3; j++ {
				owed[ci].keys[j] = owed[ci].keys[j] || menuKeys[ri][j]
			}
			owed[ci].forced = vp.Or(owed[ci].forced, forced[ri])
			owed[ci].any = true
			owed[ci].newest = pushes[ri]
			if !inflight[ci] && !queued(ci) {
				order = append(order, ci)
			}
		case op == ncons*len(menu): // Dequeue
			if q.Pending() == 0 {
				vp.Assert(len(order) == 0, "pending-count-matches-ghost")
				continue
			}
			c, r, shutdown := q.Dequeue()
			vp.Reach("dequeued")
			vp.Assert(!shutdown, "no-spurious-shutdown")
			ci := indexOf(c)
			vp.Assert(ci >= 0, "dequeue-known-connection")
			vp.Assert(!inflight[ci], "one-push-in-flight")
			vp.Assert(len(order) > 0 && order[0] == ci, "fifo")
			order = order[1:]
			vp.Assert(r != nil && owed[ci].any, "dequeue-has-request")
			for j := 0; j < 3; j++ {
				vp.Assert(r.ConfigsUpdated.Contains(verifQKeys[j]) == owed[ci].keys[j], "covers-union-of-keys")
			}
			vp.Assert(r.Forced == owed[ci].forced, "stays-forced")
			vp.Assert(r.Push == owed[ci].newest, "newest-snapshot")
			owed[ci] = verifOwed{}
			inflight[ci] = true
		default: // MarkDone(c)
			ci := op - ncons*len(menu) - 1
			q.MarkDone(cons[ci])
			if inflight[ci] {
				inflight[ci] = false
				if owed[ci].any {
					order = append(order, ci)
				}
			}
		}
		// representation invariant after every operation
		vp.Assert(len(q.queue) == len(q.pending), "queue-matches-pending-size")
		vp.Assert(len(q.queue) == len(order), "queue-matches-ghost")
		for i, c := range q.queue {
			_, ok := q.pending[c]
			vp.Assert(ok, "queued-is-pending")
			vp.Assert(i < len(order) && cons[order[i]] == c, "queue-order")
			for j := i + 1; j < len(q.queue); j++ {
				vp.Assert(q.queue[j] != c, "queue-no-duplicates")
			}
		}
		for ci, c := range cons {
			// nothing owed is lost: it is pending, or parked behind the push in flight
			if owed[ci].any {
				_, pend := q.pending[c]
				parked := q.processing[c] != nil
				vp.Assert(pend || parked, "owed-update-not-lost")
				vp.Assert(!(pend && parked), "owed-update-in-one-place")
			}
			_, proc := q.processing[c]
			vp.Assert(proc == inflight[ci], "processing-matches-in-flight")
		}
		// the shared request objects are never mutated
		for i, m := range menu {
			for j := 0; j < 3; j++ {
				vp.Assert(m.ConfigsUpdated.Contains(verifQKeys[j]) == menuKeys[i][j], "shared-request-keys-untouched")
			}
			vp.Assert(m.Forced == forced[i] && m.Push == pushes[i] && len(m.Reason) == 1 && m.Reason[model.ConfigUpdate] == 1, "shared-request-untouched")
		}
	}
}

// Mutant twin: claiming that a Dequeue hands out only the LAST enqueued request's keys must be refuted.
func VerifC02QueueTwin() {
	q := NewPushQueue()
	c := &Connection{}
	r0 := &model.PushRequest{ConfigsUpdated: sets.New(verifQKeys[0]), Push: &model.PushContext{}}
	r1 := &model.PushRequest{ConfigsUpdated: sets.New(verifQKeys[1]), Push: &model.PushContext{}}
	q.Enqueue(c, r0)
	q.Enqueue(c, r1)
	_, r, _ := q.Dequeue()
	vp.Assert(!r.ConfigsUpdated.Contains(verifQKeys[0]), "twin")
}
