package model

import (
	"time"

	"istio.io/istio/pkg/config/schema/kind"
	"istio.io/istio/pkg/util/sets"
	vp "istio.io/istio/pkg/zzvp"
)

var verifC02Keys = []ConfigKey{
	{Kind: kind.ServiceEntry, Name: "a", Namespace: "ns1"},
	{Kind: kind.VirtualService, Name: "b", Namespace: "ns1"},
	{Kind: kind.DestinationRule, Name: "c", Namespace: "ns2"},
}

var verifC02Addrs = []string{"addr1", "addr2"}

var verifC02Pushes = []*PushContext{nil, {PushVersion: "p1"}, {PushVersion: "p2"}}

func verifNKeys() int {
	if vp.Tier() == 1 {
		return 3
	}
	return 2
}

func verifNAddrs() int {
	if vp.Tier() == 1 {
		return 2
	}
	return 1
}

type verifReqShape struct {
	req      *PushRequest
	inKeys   [3]bool
	inAddrs  [2]bool
	forced   bool
	push     *PushContext
	start    time.Time
	hasR0    bool
	hasR1    bool
	r0, r1   int
	keysNil  bool
	addrsNil bool
}

// verifMakeReq builds an arbitrary push request: any subset of the key universe (or a nil set),
// any forced flag, any snapshot, any reason counts.
func verifMakeReq(p string) *verifReqShape {
	s := &verifReqShape{}
	s.keysNil = vp.Choice(p+".keysNil", 2) == 1
	var keys sets.Set[ConfigKey]
	if !s.keysNil {
		keys = sets.New[ConfigKey]()
		for i, k := range verifC02Keys[:verifNKeys()] {
			if vp.Choice(vp.Name(p+".key", i), 2) == 1 {
				keys.Insert(k)
				s.inKeys[i] = true
			}
		}
	}
	s.addrsNil = vp.Choice(p+".addrsNil", 2) == 1
	var addrs sets.Set[string]
	if !s.addrsNil {
		addrs = sets.New[string]()
		for i, k := range verifC02Addrs[:verifNAddrs()] {
			if vp.Choice(vp.Name(p+".addr", i), 2) == 1 {
				addrs.Insert(k)
				s.inAddrs[i] = true
			}
		}
	}
	s.forced = vp.Bool(p + ".forced")
	s.push = verifC02Pushes[vp.Choice(p+".push", 3)]
	s.start = vp.Time(p + ".start")
	var reason ReasonStats
	switch vp.Choice(p+".reasons", 3) {
	case 1:
		s.hasR0, s.r0 = true, vp.Int(p+".r0")
		reason = ReasonStats{EndpointUpdate: s.r0}
	case 2:
		s.hasR0, s.hasR1, s.r0, s.r1 = true, true, vp.Int(p+".r0"), vp.Int(p+".r1")
		reason = ReasonStats{EndpointUpdate: s.r0, ConfigUpdate: s.r1}
	}
	s.req = &PushRequest{ConfigsUpdated: keys, AddressesUpdated: addrs, Push: s.push, Start: s.start, Reason: reason, Forced: s.forced}
	return s
}

// verifUnchanged: the request still has exactly the content described by its shape.
func (s *verifReqShape) verifUnchanged(label string) {
	r := s.req
	vp.Assert((r.ConfigsUpdated == nil) == s.keysNil, label+"-keys-nilness")
	for i, k := range verifC02Keys {
		vp.Assert(r.ConfigsUpdated.Contains(k) == s.inKeys[i], label+"-keys")
	}
	for i, k := range verifC02Addrs {
		vp.Assert(r.AddressesUpdated.Contains(k) == s.inAddrs[i], label+"-addrs")
	}
	vp.Assert(r.Forced == s.forced, label+"-forced")
	vp.Assert(r.Push == s.push, label+"-push")
	vp.Assert(r.Start.Equal(s.start), label+"-start")
	c0, has0 := r.Reason[EndpointUpdate]
	c1, has1 := r.Reason[ConfigUpdate]
	vp.Assert(has0 == s.hasR0 && has1 == s.hasR1, label+"-reason-keys")
	vp.Assert(vp.And(!has0 || c0 == s.r0, !has1 || c1 == s.r1), label+"-reason-counts")
}

// verifCovers: m is the union / or / newest of a and b.
func verifCovers(m *PushRequest, a, b *verifReqShape, label string, copyMerge bool) {
	for i, k := range verifC02Keys {
		vp.Assert(m.ConfigsUpdated.Contains(k) == (a.inKeys[i] || b.inKeys[i]), label+"-keys-union")
	}
	vp.Assert(len(m.ConfigsUpdated) <= 3, label+"-no-foreign-keys")
	for i, k := range verifC02Addrs {
		vp.Assert(m.AddressesUpdated.Contains(k) == (a.inAddrs[i] || b.inAddrs[i]), label+"-addrs-union")
	}
	vp.Assert(m.Forced == vp.Or(a.forced, b.forced), label+"-forced-or")
	wantPush := a.push
	if b.push != nil {
		wantPush = b.push
	}
	vp.Assert(m.Push == wantPush, label+"-newest-snapshot")
	vp.Assert(m.Start.Equal(a.start), label+"-oldest-start")
	c0 := m.Reason[EndpointUpdate]
	c1 := m.Reason[ConfigUpdate]
	vp.Assert(c0 == a.r0+b.r0, label+"-reason0-adds")
	vp.Assert(c1 == a.r1+b.r1, label+"-reason1-adds")
}

// K1: Merge is union / or / newest / oldest-start; the right operand is never mutated; nil is an identity.
func VerifC02Merge() {
	a, b := verifMakeReq("a"), verifMakeReq("b")
	m := a.req.Merge(b.req)
	vp.Reach("merged")
	vp.Assert(m == a.req, "merge-in-place")
	verifCovers(m, a, b, "merge", false)
	b.verifUnchanged("merge-right-operand")
	var nilReq *PushRequest
	vp.Assert(nilReq.Merge(b.req) == b.req, "merge-nil-left-identity")
	vp.Assert(b.req.Merge(nil) == b.req, "merge-nil-right-identity")
}

// K1: CopyMerge has the same result and leaves BOTH operands bit-for-bit unchanged and unshared.
// Precondition (every caller of PushQueue.Enqueue): the newer request carries a snapshot.
func VerifC02CopyMerge() {
	a, b := verifMakeReq("a"), verifMakeReq("b")
	vp.Assume(b.push != nil)
	m := a.req.CopyMerge(b.req)
	vp.Reach("merged")
	verifCovers(m, a, b, "copymerge", true)
	a.verifUnchanged("copymerge-left-operand")
	b.verifUnchanged("copymerge-right-operand")
	// no sharing: mutating the result must not be visible through either operand
	if m != a.req && m != b.req {
		if m.ConfigsUpdated != nil {
			m.ConfigsUpdated.Insert(ConfigKey{Kind: kind.Gateway, Name: "z", Namespace: "z"})
		}
		if m.AddressesUpdated != nil {
			m.AddressesUpdated.Insert("zz")
		}
		if m.Reason != nil {
			m.Reason[ProxyUpdate] = 7
		}
		vp.Assert(!a.req.ConfigsUpdated.Contains(ConfigKey{Kind: kind.Gateway, Name: "z", Namespace: "z"}), "copymerge-unshared-left-keys")
		vp.Assert(!b.req.ConfigsUpdated.Contains(ConfigKey{Kind: kind.Gateway, Name: "z", Namespace: "z"}), "copymerge-unshared-right-keys")
		vp.Assert(!a.req.AddressesUpdated.Contains("zz") && !b.req.AddressesUpdated.Contains("zz"), "copymerge-unshared-addrs")
		_, inA := a.req.Reason[ProxyUpdate]
		_, inB := b.req.Reason[ProxyUpdate]
		vp.Assert(!inA && !inB, "copymerge-unshared-reasons")
	}
	var nilReq *PushRequest
	vp.Assert(nilReq.CopyMerge(b.req) == b.req, "copymerge-nil-left-identity")
	vp.Assert(b.req.CopyMerge(nil) == b.req, "copymerge-nil-right-identity")
}

// Mutant twin: "forced is the AND of the operands" must be refuted.
func VerifC02MergeTwin() {
	a := &verifReqShape{forced: vp.Bool("a.forced")}
	b := &verifReqShape{forced: vp.Bool("b.forced")}
	a.req, b.req = &PushRequest{Forced: a.forced}, &PushRequest{Forced: b.forced}
	m := a.req.Merge(b.req)
	vp.Assert(m.Forced == vp.And(a.forced, b.forced), "twin")
}
