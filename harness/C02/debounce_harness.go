package xds

// C02-K3: the debouncer hands every update over to a push, under every schedule of senders, timers and push
// completion: nothing sent on the channel is lost, Forced survives, debounced pushes never overlap.

import (
	"math/rand"
	"time"

	"go.uber.org/atomic"

	"istio.io/istio/pilot/pkg/model"
	"istio.io/istio/pkg/config/schema/kind"
	"istio.io/istio/pkg/util/sets"
	vp "istio.io/istio/pkg/zzvp"
)

// verifPause lets an arbitrary amount of time pass: in the engine the goroutine blocks on a timer that may fire at any
// later instant (every order against the other timers and goroutines, no pre-emption consumed); natively it sleeps for a
// random time in the range of the debounce constants, so that the native confirmation searches the same schedules.
func verifPause() {
	if vp.Symbolic() {
		<-time.After(0)
		return
	}
	time.Sleep(time.Duration(rand.Intn(300)) * time.Millisecond)
}

func verifDebounceRun(n int, twin, timed bool) {
	ch := make(chan *model.PushRequest, 10)
	stop := make(chan struct{})
	done := make(chan struct{})
	var sent atomic.Int64
	opts := DebounceOptions{DebounceAfter: 100 * time.Millisecond, debounceMax: time.Second, enableEDSDebounce: timed || vp.Choice("edsDebounce", 2) == 1}

	keys := make([]model.ConfigKey, n)
	forced := make([]bool, n)
	pushedKeys := sets.New[model.ConfigKey]()
	pushedForced := false
	debouncedInFlight := 0
	closed := false
	pushFn := func(r *model.PushRequest) {
		vp.Assert(r != nil, "push-request-is-never-nil")
		immediate := !opts.enableEDSDebounce && model.OnlyHasConfigsOfKind(r.ConfigsUpdated, kind.Endpoints)
		if !immediate {
			debouncedInFlight++
			vp.Assert(debouncedInFlight == 1, "debounced-pushes-never-overlap")
		}
		if timed {
			verifPause() // the push takes an arbitrary time
		} else {
			vp.Yield() // the push takes time
		}
		for k := range r.ConfigsUpdated {
			pushedKeys.Insert(k)
		}
		pushedForced = vp.Or(pushedForced, r.Forced)
		if !immediate {
			debouncedInFlight--
		}
		all := true
		for _, k := range keys {
			if !pushedKeys.Contains(k) {
				all = false
			}
		}
		if all && !closed {
			closed = true
			close(done)
		}
	}
	go debounce(ch, stop, opts, pushFn, &sent)
	anyForced := false
	for i := 0; i < n; i++ {
		p := vp.Name("req", i)
		k := kind.ServiceEntry
		if !timed {
			k = []kind.Kind{kind.ServiceEntry, kind.Endpoints}[vp.Choice(p+".kind", 2)]
		}
		keys[i] = model.ConfigKey{Kind: k, Name: vp.Name("cfg", i), Namespace: "ns"}
		forced[i] = vp.Bool(p + ".forced")
		anyForced = vp.Or(anyForced, forced[i])
		ch <- &model.PushRequest{ConfigsUpdated: sets.New(keys[i]), Forced: forced[i], Reason: model.NewReasonStats(model.ConfigUpdate)}
		vp.Reach("sent")
		if timed {
			verifPause() // updates arrive at arbitrary instants
		}
	}
	// quiescence: the main goroutine blocks; senders are done, timers and pushes run in every order.
	// A lost update leaves every goroutine asleep with nothing armed: reported as a deadlock.
	<-done
	vp.Reach("all-pushed")
	if twin {
		vp.Assert(!pushedForced, "twin")
		return
	}
	// all keys are pushed, so every request was part of some push: Forced must have come along (and is not invented)
	vp.Assert(pushedForced == anyForced, "forced-survives-debouncing")
	close(stop)
}

func VerifC02Debounce() { verifDebounceRun(2+vp.Tier(), false, false) }

// The same with time made explicit: updates arrive after arbitrary pauses and a push lasts an arbitrary time, so every
// order of arrivals, debounce-timer expiries and push completions is explored (three updates: one whose push is in
// flight, two that arrive meanwhile).
func VerifC02DebounceTimed() { verifDebounceRun(3, false, true) }

// Mutant twin: "Forced never reaches a push" must be refuted.
func VerifC02DebounceTwin() { verifDebounceRun(1, true, false) }
