package xds

// C02-K3: the debouncer hands every update over to a push, under every schedule of senders, timers and push
// completion: nothing sent on the channel is lost, Forced survives, debounced pushes never overlap.

import (
	"time"

	"go.uber.org/atomic"

	"istio.io/istio/pilot/pkg/model"
	"istio.io/istio/pkg/config/schema/kind"
	"istio.io/istio/pkg/util/sets"
	vp "istio.io/istio/pkg/zzvp"
)

func verifDebounceRun(n int, twin bool) {
	ch := make(chan *model.PushRequest, 10)
	stop := make(chan struct{})
	done := make(chan struct{})
	var sent atomic.Int64
	opts := DebounceOptions{DebounceAfter: 100 * time.Millisecond, debounceMax: time.Second, enableEDSDebounce: vp.Choice("edsDebounce", 2) == 1}

	keys := make([]model.ConfigKey, n)
	forced := make([]bool, n)
	pushedKeys := sets.New[model.ConfigKey]()
	pushedForced := false
	debouncedInFlight := 0
	closed := false
	pushFn := func(r *model.PushRequest) {
		vp.Assert(r != nil, "push-request-is-never-nil")
		immediate := !opts.enableEDSDebounce && model.OnlyHasConfigsOfKind(r.ConfigsUpdated, kind.Endpoints)
		if !immediate {
			debouncedInFlight++
			vp.Assert(debouncedInFlight == 1, "debounced-pushes-never-overlap")
		}
		vp.Yield() // the push takes time
		for k := range r.ConfigsUpdated {
			pushedKeys.Insert(k)
		}
		pushedForced = vp.Or(pushedForced, r.Forced)
		if !immediate {
			debouncedInFlight--
		}
		all := true
		for _, k := range keys {
			if !pushedKeys.Contains(k) {
				all = false
			}
		}
		if all && !closed {
			closed = true
			close(done)
		}
	}
	go debounce(ch, stop, opts, pushFn, &sent)
	anyForced := false
	for i := 0; i < n; i++ {
		p := vp.Name("req", i)
		k := []kind.Kind{kind.ServiceEntry, kind.Endpoints}[vp.Choice(p+".kind", 2)]
		keys[i] = model.ConfigKey{Kind: k, Name: vp.Name("cfg", i), Namespace: "ns"}
		forced[i] = vp.Bool(p + ".forced")
		anyForced = vp.Or(anyForced, forced[i])
		ch <- &model.PushRequest{ConfigsUpdated: sets.New(keys[i]), Forced: forced[i], Reason: model.NewReasonStats(model.ConfigUpdate)}
		vp.Reach("sent")
	}
	// quiescence: the main goroutine blocks; senders are done, timers and pushes run in every order.
	// A lost update leaves every goroutine asleep with nothing armed: reported as a deadlock.
	<-done
	vp.Reach("all-pushed")
	if twin {
		vp.Assert(!pushedForced, "twin")
		return
	}
	// all keys are pushed, so every request was part of some push: Forced must have come along (and is not invented)
	vp.Assert(pushedForced == anyForced, "forced-survives-debouncing")
	close(stop)
}

func VerifC02Debounce() { verifDebounceRun(2+vp.Tier(), false) }

// Mutant twin: "Forced never reaches a push" must be refuted.
func VerifC02DebounceTwin() { verifDebounceRun(1, true) }
