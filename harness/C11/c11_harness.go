package xds

import (
	"errors"
	"strings"

	discovery "github.com/envoyproxy/go-control-plane/envoy/service/discovery/v3"

	mesh "istio.io/api/mesh/v1alpha1"
	credscontroller "istio.io/istio/pilot/pkg/credentials"
	"istio.io/istio/pilot/pkg/model"
	"istio.io/istio/pilot/pkg/model/credentials"
	v3 "istio.io/istio/pilot/pkg/xds/v3"
	"istio.io/istio/pkg/cluster"
	"istio.io/istio/pkg/config/schema/kind"
	"istio.io/istio/pkg/spiffe"
	"istio.io/istio/pkg/util/sets"
	vp "istio.io/istio/pkg/zzvp"
)

// ---------------------------------------------------------------- K1: identity check

// verifParseIdentity is the reference reading of the documented grammar spiffe://<td>/ns/<ns>/sa/<sa>,
// written with Cut (not Split) and without early returns.
func verifParseIdentity(raw string) (ok bool, td, ns, sa string) {
	rest, hasPrefix := strings.CutPrefix(raw, "spiffe://")
	td, r1, ok1 := strings.Cut(rest, "/")
	seg1, r2, ok2 := strings.Cut(r1, "/")
	ns, r3, ok3 := strings.Cut(r2, "/")
	seg2, sa, ok4 := strings.Cut(r3, "/")
	ok = vp.And3(hasPrefix, vp.And(ok1, ok2), vp.And3(ok3, ok4, vp.And3(seg1 == "ns", seg2 == "sa", !strings.Contains(sa, "/"))))
	return ok, td, ns, sa
}

func verifIsIdentityOf(raw string, id *spiffe.Identity) bool {
	ok, td, ns, sa := verifParseIdentity(raw)
	return vp.And(ok, vp.And3(id.TrustDomain == td, id.Namespace == ns, id.ServiceAccount == sa))
}

func VerifC11Identity() {
	n := 1 + vp.Choice("nIdentities", 2)
	ids := []string{"spiffe://" + vp.String("id0rest", 12+2*vp.Tier()), vp.String("id1", 12+2*vp.Tier())}[:n]
	claimedNs := vp.String("claimedNs", 3)
	claimedSA := vp.String("claimedSA", 3)
	proxy := &model.Proxy{ID: "p", ConfigNamespace: claimedNs, Metadata: &model.NodeMetadata{ServiceAccount: claimedSA}}
	con := &Connection{proxy: proxy}
	s := &DiscoveryServer{}
	err := s.authorize(con, ids)
	vp.Reach("authorized")
	if err != nil {
		vp.Assert(proxy.VerifiedIdentity == nil, "denied-leaves-no-identity")
		// completeness: denial only if no presented identity fits the claim
		for _, raw := range ids {
			id, perr := spiffe.ParseIdentity(raw)
			if perr == nil {
				fits := vp.And(vp.Or(claimedNs == "", id.Namespace == claimedNs), vp.Or(claimedSA == "", id.ServiceAccount == claimedSA))
				vp.Assert(!fits, "denied-only-without-matching-identity")
			}
		}
		return
	}
	v := proxy.VerifiedIdentity
	vp.Assert(v != nil, "accepted-sets-identity")
	from0 := verifIsIdentityOf(ids[0], v)
	from1 := false
	if n > 1 {
		from1 = verifIsIdentityOf(ids[1], v)
	}
	vp.Assert(vp.Or(from0, from1), "identity-is-a-presented-credential")
	vp.Assert(vp.Or(claimedNs == "", v.Namespace == claimedNs), "namespace-proven-by-credential")
	vp.Assert(vp.Or(claimedSA == "", v.ServiceAccount == claimedSA), "service-account-proven-by-credential")
}

// ---------------------------------------------------------------- K2: SDS gate

type verifCall struct{ what, name, ns, cluster string }

type verifCreds struct {
	log     *[]verifCall
	cluster string
	authz   bool
	caFails bool // the CA-only lookup finds nothing (secret without a CA entry)
}

func (c verifCreds) rec(what, name, ns string) {
	*c.log = append(*c.log, verifCall{what, name, ns, c.cluster})
}

func (c verifCreds) GetCertInfo(name, ns string) (*credscontroller.CertInfo, error) {
	c.rec("key", name, ns)
	return &credscontroller.CertInfo{Cert: []byte("c"), Key: []byte("k")}, nil
}

func (c verifCreds) GetCaCert(name, ns string) (*credscontroller.CertInfo, error) {
	c.rec("ca", name, ns)
	if c.caFails {
		return nil, errors.New("no ca entry")
	}
	return &credscontroller.CertInfo{Cert: []byte("c")}, nil
}

func (c verifCreds) GetConfigMapCaCert(name, ns string) (*credscontroller.CertInfo, error) {
	c.rec("cmca", name, ns)
	return &credscontroller.CertInfo{Cert: []byte("c")}, nil
}
func (c verifCreds) GetDockerCredential(name, ns string) ([]byte, error) { return nil, nil }
func (c verifCreds) Authorize(sa, ns string) error {
	c.rec("authorize", sa, ns)
	if c.authz {
		return nil
	}
	return errors.New("denied")
}

type verifMulti struct {
	log     *[]verifCall
	authz   bool
	caFails bool
}

func (m verifMulti) ForCluster(id cluster.ID) (credscontroller.Controller, error) {
	return verifCreds{log: m.log, cluster: string(id), authz: m.authz, caFails: m.caFails}, nil
}
func (m verifMulti) AddSecretHandler(func(k kind.Kind, name, namespace string)) {}

// verifSDSCache is a recording cache that answers every Get with a hit for names in 'warm'
// (a resource another, differently privileged proxy caused to be cached earlier).
type verifSDSCache struct {
	gets *[]string
	warm bool
}

func (c verifSDSCache) Run(<-chan struct{})                                              {}
func (c verifSDSCache) Add(model.XdsCacheEntry, *model.PushRequest, *discovery.Resource) {}
func (c verifSDSCache) Get(e model.XdsCacheEntry) *discovery.Resource {
	sr := e.(SecretResource)
	*c.gets = append(*c.gets, sr.ResourceName)
	if c.warm {
		return &discovery.Resource{Name: sr.ResourceName}
	}
	return nil
}
func (c verifSDSCache) Clear(sets.Set[model.ConfigKey]) {}
func (c verifSDSCache) ClearAll()                       {}
func (c verifSDSCache) Keys(string) []any               { return nil }
func (c verifSDSCache) Snapshot() []*discovery.Resource { return nil }

func verifToEnvoyTLSSecret(name string, certInfo *credscontroller.CertInfo, proxy *model.Proxy, meshConfig *mesh.MeshConfig) *discovery.Resource {
	return &discovery.Resource{Name: name}
}

func verifToEnvoyCaSecret(name string, certInfo *credscontroller.CertInfo) *discovery.Resource {
	return &discovery.Resource{Name: name}
}

func verifValidateCertificate(data []byte) error { return nil }

var verifSchemes = []string{"kubernetes://", "kubernetes-gateway://", "configmap://", "builtin://", "invalid://", ""}

func VerifC11SDSGate() {
	scheme := verifSchemes[vp.Choice("scheme", len(verifSchemes))]
	suffix := vp.StringIn("suffix", 7, "ab/-cert")
	name := scheme + suffix
	verNs, verSA := vp.StringIn("verifiedNs", 2, "ab"), "sa"
	hasIdentity := vp.Choice("hasIdentity", 2) == 1
	authz := vp.Choice("authorizeResult", 2) == 1
	verifiedRef := vp.Choice("verifiedReference", 2) == 1
	warm := vp.Choice("cacheWarm", 2) == 1
	forced := vp.Choice("forced", 2) == 1
	caFails := vp.Choice("caLookupFails", 2) == 1

	var calls []verifCall
	var gets []string
	gen := &SecretGen{secrets: verifMulti{log: &calls, authz: authz, caFails: caFails}, cache: verifSDSCache{gets: &gets, warm: warm}, configCluster: "config", meshConfig: &mesh.MeshConfig{}}
	proxy := &model.Proxy{ID: "p", Metadata: &model.NodeMetadata{ClusterID: "remote"}, MergedGateway: &model.MergedGateway{VerifiedCertificateReferences: sets.New[string]()}}
	if hasIdentity {
		proxy.VerifiedIdentity = &spiffe.Identity{TrustDomain: "td", Namespace: verNs, ServiceAccount: verSA}
	}
	if verifiedRef {
		proxy.MergedGateway.VerifiedCertificateReferences.Insert(name)
	}
	w := &model.WatchedResource{TypeUrl: v3.SecretType, ResourceNames: sets.New(name)}
	req := &model.PushRequest{Forced: forced}
	if !forced {
		// an incremental push naming exactly the secret a "kubernetes://x" request would resolve to, and a wildcard-ish other
		req.ConfigsUpdated = sets.New(model.ConfigKey{Kind: kind.Secret, Name: vp.StringIn("updName", 7, "ab-cert"), Namespace: vp.StringIn("updNs", 2, "ab")})
	}
	res, _, err := gen.Generate(proxy, w, req)
	vp.Reach("generated")
	vp.Assert(err == nil, "no-error")

	if !hasIdentity {
		vp.Assert(len(res) == 0 && len(calls) == 0 && len(gets) == 0, "unauthenticated-gets-nothing")
		return
	}
	for _, c := range calls {
		switch c.what {
		case "authorize":
			vp.Assert(vp.And(c.name == verSA, c.ns == verNs), "authorize-asked-about-verified-identity-only")
		case "key":
			// private key material: own verified namespace + authorised, or an explicitly verified gateway reference
			k8s := scheme == "kubernetes://"
			gw := scheme == "kubernetes-gateway://"
			vp.Assert(k8s || gw, "key-material-only-for-secret-schemes")
			if k8s {
				vp.Assert(c.ns == verNs, "key-material-only-from-own-namespace")
				vp.Assert(authz, "key-material-only-when-authorised")
				vp.Assert(c.cluster == "remote", "key-material-from-proxy-cluster")
			}
			if gw {
				vp.Assert(verifiedRef, "gateway-key-material-only-for-verified-reference")
			}
		case "ca":
			if scheme == "kubernetes://" {
				vp.Assert(c.ns == verNs, "ca-only-from-own-namespace")
			}
			if scheme == "kubernetes-gateway://" {
				vp.Assert(verifiedRef, "gateway-ca-only-for-verified-reference")
			}
		}
	}
	// authorisation precedes the cache: every cache lookup is for a resource that passed the gate
	for range gets {
		switch scheme {
		case "kubernetes://":
			sr, perr := credentials.ParseResourceName(name, verNs, "remote", "config")
			vp.Assert(perr == nil, "cache-get-only-for-parsable")
			isCA := strings.HasSuffix(sr.Name, "-cacert")
			vp.Assert(vp.And(sr.Namespace == verNs, vp.Or(isCA, authz)), "cache-lookup-only-after-authorisation")
		case "kubernetes-gateway://":
			vp.Assert(verifiedRef, "cache-lookup-only-for-verified-reference")
		case "configmap://":
		default:
			vp.Unreachable("cache-lookup-for-unsupported-scheme")
		}
	}
	// a returned resource is one that passed the gate (also when it came from the warm cache)
	if len(res) > 0 {
		vp.Assert(len(gets) > 0, "result-went-through-the-gate")
	}
}

// Mutant twin: "no cross-namespace lookup even for configmaps" is false by design and must be refuted.
func VerifC11Twin() {
	suffix := vp.StringIn("suffix", 5, "ab/")
	name := "configmap://" + suffix
	var calls []verifCall
	var gets []string
	gen := &SecretGen{secrets: verifMulti{log: &calls, authz: false}, cache: verifSDSCache{gets: &gets}, configCluster: "config", meshConfig: &mesh.MeshConfig{}}
	proxy := &model.Proxy{ID: "p", Metadata: &model.NodeMetadata{ClusterID: "remote"}, VerifiedIdentity: &spiffe.Identity{TrustDomain: "td", Namespace: "a", ServiceAccount: "sa"}}
	w := &model.WatchedResource{TypeUrl: v3.SecretType, ResourceNames: sets.New(name)}
	gen.Generate(proxy, w, &model.PushRequest{Forced: true})
	for _, c := range calls {
		vp.Assert(c.ns == "a", "twin")
	}
}
