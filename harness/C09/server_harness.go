package ca

import (
	"context"
	"errors"

	"google.golang.org/protobuf/types/known/structpb"
	v1 "k8s.io/api/core/v1"
	metav1 "k8s.io/apimachinery/pkg/apis/meta/v1"
	"k8s.io/apimachinery/pkg/types"

	pb "istio.io/api/security/v1alpha1"
	"istio.io/istio/pkg/kube"
	"istio.io/istio/pkg/kube/kclient"
	"istio.io/istio/pkg/kube/kubetypes"
	"istio.io/istio/pkg/security"
	"istio.io/istio/pkg/util/sets"
	vp "istio.io/istio/pkg/zzvp"
	"istio.io/istio/security/pkg/pki/ca"
	caerror "istio.io/istio/security/pkg/pki/error"
	"istio.io/istio/security/pkg/pki/util"
)

// ---------------------------------------------------------------- K1: identity binding

type verifCA struct {
	calls *[]ca.CertOpts
	fail  bool
}

func (c verifCA) Sign(csrPEM []byte, opts ca.CertOpts) ([]byte, error) {
	*c.calls = append(*c.calls, opts)
	if c.fail {
		return nil, caerror.NewError(caerror.CSRError, errors.New("bad csr"))
	}
	return []byte("cert"), nil
}

func (c verifCA) SignWithCertChain(csrPEM []byte, opts ca.CertOpts) ([]string, error) {
	*c.calls = append(*c.calls, opts)
	if c.fail {
		return nil, caerror.NewError(caerror.CSRError, errors.New("bad csr"))
	}
	return []string{"cert"}, nil
}
func (c verifCA) GetCAKeyCertBundle() *util.KeyCertBundle { return &util.KeyCertBundle{} }

// symbolic authentication outcome: stands for every authenticator (the harnesses of the
// authenticators themselves are separate kernels)
var verifAuthOutcome struct {
	kind   int // 0: no caller, 1: error, 2: caller
	caller *security.Caller
}

func verifAuthenticate(ctx context.Context, authenticators []security.Authenticator) (*security.Caller, error) {
	switch verifAuthOutcome.kind {
	case 0:
		return nil, nil
	case 1:
		return nil, errors.New("authentication failure")
	}
	return verifAuthOutcome.caller, nil
}

var verifImpersonation struct {
	ran      bool
	accept   bool
	gotInfo  security.KubernetesInfo
	gotIdent string
}

func verifAuthenticateImpersonation(m *MulticlusterNodeAuthorizor, ctx context.Context, caller security.KubernetesInfo, requested string) error {
	verifImpersonation.ran = true
	verifImpersonation.gotInfo = caller
	verifImpersonation.gotIdent = requested
	if verifImpersonation.accept {
		return nil
	}
	return errors.New("not authorised to impersonate")
}

func VerifC09Binding() {
	verifAuthOutcome.kind = vp.Choice("authOutcome", 3)
	nIDs := 1 + vp.Choice("nIdentities", 2)
	// the first identity is either a well-formed SPIFFE URI with symbolic parts or an arbitrary string
	id0 := vp.String("id0", 6)
	if vp.Choice("id0WellFormed", 2) == 1 {
		id0 = "spiffe://" + vp.StringIn("id0.td", 2, "tu") + "/ns/" + vp.StringIn("id0.ns", 2, "ab") + "/sa/" + vp.StringIn("id0.sa", 2, "st")
	}
	ids := []string{id0, vp.String("id1", 6)}[:nIDs]
	info := security.KubernetesInfo{PodName: vp.String("podName", 3), PodNamespace: vp.String("podNs", 3), PodUID: vp.String("podUID", 3), PodServiceAccount: vp.String("podSA", 3)}
	verifAuthOutcome.caller = &security.Caller{AuthSource: security.AuthSourceIDToken, Identities: ids, KubernetesInfo: info}
	verifImpersonation.ran, verifImpersonation.accept = false, vp.Choice("impersonationAccepted", 2) == 1

	var calls []ca.CertOpts
	hasAuthorizer := vp.Choice("nodeAuthorizerConfigured", 2) == 1
	s := &Server{ca: verifCA{calls: &calls, fail: vp.Choice("signFails", 2) == 1}, monitoring: newMonitoringMetrics()}
	if hasAuthorizer {
		s.nodeAuthorizer = &MulticlusterNodeAuthorizor{}
	}
	imp := vp.String("impersonated", 6)
	if vp.Choice("impersonatedWellFormed", 2) == 1 {
		imp = "spiffe://" + vp.StringIn("imp.td", 2, "tu") + "/ns/" + vp.StringIn("imp.ns", 2, "ab") + "/sa/" + vp.StringIn("imp.sa", 2, "st")
	}
	signer := vp.String("certSigner", 3)
	fields := map[string]*structpb.Value{
		"other": structpb.NewStringValue(vp.String("otherMeta", 4)),
	}
	if vp.Choice("impersonationFieldPresent", 2) == 1 {
		fields[security.ImpersonatedIdentity] = structpb.NewStringValue(imp)
	} else {
		imp = ""
	}
	if vp.Choice("signerFieldPresent", 2) == 1 {
		fields[security.CertSigner] = structpb.NewStringValue(signer)
	} else {
		signer = ""
	}
	ttl := vp.Int64("validitySeconds")
	req := &pb.IstioCertificateRequest{Csr: vp.String("csr", 8), ValidityDuration: ttl, Metadata: &structpb.Struct{Fields: fields}}

	resp, err := s.CreateCertificate(context.Background(), req)
	vp.Reach("returned")

	if verifAuthOutcome.kind != 2 {
		vp.Assert(err != nil && resp == nil, "unauthenticated-is-refused")
		vp.Assert(len(calls) == 0, "unauthenticated-never-reaches-the-signer")
		vp.Assert(!verifImpersonation.ran, "unauthenticated-never-reaches-the-node-authorizer")
		return
	}
	vp.Assert(len(calls) <= 1, "at-most-one-signing")
	if imp != "" {
		// impersonation requested
		if !hasAuthorizer {
			vp.Assert(err != nil && len(calls) == 0, "impersonation-refused-without-authorizer")
			return
		}
		vp.Assert(verifImpersonation.ran, "impersonation-goes-through-the-authorizer")
		vp.Assert(verifImpersonation.gotIdent == imp, "authorizer-sees-the-requested-identity")
		vp.Assert(verifImpersonation.gotInfo == info, "authorizer-sees-the-authenticated-caller")
		if !verifImpersonation.accept {
			vp.Assert(err != nil && len(calls) == 0, "rejected-impersonation-is-not-signed")
			return
		}
	}
	if len(calls) == 1 {
		o := calls[0]
		vp.Assert(!o.ForCA, "never-a-ca-certificate")
		if imp != "" {
			vp.Assert(len(o.SubjectIDs) == 1 && o.SubjectIDs[0] == imp, "san-is-exactly-the-authorised-impersonated-identity")
		} else {
			vp.Assert(!verifImpersonation.ran, "no-impersonation-no-authorizer")
			vp.Assert(len(o.SubjectIDs) == nIDs, "san-count-equals-authenticated-identities")
			for i := range ids {
				if i < len(o.SubjectIDs) {
					vp.Assert(o.SubjectIDs[i] == ids[i], "san-equals-authenticated-identity")
				}
			}
		}
		vp.Assert(o.CertSigner == signer, "signer-field-forwarded-verbatim")
	} else {
		vp.Assert(false, "authenticated-request-reaches-the-signer")
	}
}

// ---------------------------------------------------------------- K2: impersonation gate

type verifPods struct {
	kclient.Client[*v1.Pod] // nil: only Get is used
	pods                    []*v1.Pod
}

func (p verifPods) Get(name, namespace string) *v1.Pod {
	for _, pod := range p.pods {
		if pod.Name == name && pod.Namespace == namespace {
			return pod
		}
	}
	return nil
}

// Index is what the real kclient informer offers: a string-keyed index fed by the caller's extract function. The
// authorizer's own extract closure, kclient.CreateIndex (keys = SaNode.String) and index.Lookup run on top of it.
func (p verifPods) Index(name string, extract func(o *v1.Pod) []string) kclient.RawIndexer {
	return verifRawIndex{pods: p.pods, extract: extract}
}

type verifRawIndex struct {
	pods    []*v1.Pod
	extract func(o *v1.Pod) []string
}

func (x verifRawIndex) Lookup(key string) []any {
	var out []any
	for _, pod := range x.pods {
		for _, k := range x.extract(pod) {
			if k == key {
				out = append(out, pod)
				break
			}
		}
	}
	return out
}

// the kube client the authorizer is built from: only ObjectFilter is consulted before kclient.NewFiltered (replaced)
type verifKube struct{ kube.Client }

func (verifKube) ObjectFilter() kubetypes.DynamicObjectFilter { return nil }

var verifPodsCur verifPods

func verifNewFilteredPods(c kube.Client, filter kclient.Filter) kclient.Client[*v1.Pod] {
	return verifPodsCur
}

func verifPod(p string) *v1.Pod {
	return &v1.Pod{
		ObjectMeta: metav1.ObjectMeta{Name: vp.StringIn(p+".name", 2, "pq"), Namespace: vp.StringIn(p+".ns", 2, "ab"), UID: types.UID(vp.StringIn(p+".uid", 2, "12"))},
		Spec:       v1.PodSpec{ServiceAccountName: vp.StringIn(p+".sa", 2, "st"), NodeName: vp.StringIn(p+".node", 2, "mn")},
	}
}

func VerifC09ImpersonationGate() {
	pods := []*v1.Pod{verifPod("pod0"), verifPod("pod1")}
	// pod (name, namespace) is a key in the API server
	vp.Assume(!(pods[0].Name == pods[1].Name && pods[0].Namespace == pods[1].Namespace))
	trusted := sets.New(types.NamespacedName{Namespace: "a", Name: "s"})
	// the real constructor: its pod index (extract closure, SaNode.String keys) is part of the gate
	verifPodsCur = verifPods{pods: pods}
	na := NewClusterNodeAuthorizer(verifKube{}, trusted)
	caller := security.KubernetesInfo{PodName: vp.StringIn("caller.name", 2, "pq"), PodNamespace: vp.StringIn("caller.ns", 2, "ab"), PodUID: vp.StringIn("caller.uid", 2, "12"), PodServiceAccount: vp.StringIn("caller.sa", 2, "st")}
	reqNs, reqSA := vp.StringIn("req.ns", 2, "ab/"), vp.StringIn("req.sa", 2, "st/")
	requested := "spiffe://td/ns/" + reqNs + "/sa/" + reqSA
	err := na.authenticateImpersonation(caller, requested)
	vp.Reach("decided")
	if err != nil {
		return
	}
	// acceptance implies every documented condition
	vp.Assert(vp.And(caller.PodNamespace == "a", caller.PodServiceAccount == "s"), "caller-service-account-is-trusted")
	var callerPod *v1.Pod
	for _, pod := range pods {
		if pod.Name == caller.PodName && pod.Namespace == caller.PodNamespace {
			callerPod = pod
		}
	}
	vp.Assert(callerPod != nil, "caller-pod-exists")
	if callerPod == nil {
		return
	}
	vp.Assert(string(callerPod.UID) == caller.PodUID, "caller-pod-uid-matches")
	vp.Assert(callerPod.Spec.ServiceAccountName == caller.PodServiceAccount, "caller-pod-service-account-matches")
	onNode := false
	for _, pod := range pods {
		onNode = vp.Or(onNode, vp.And3(pod.Namespace == reqNs, pod.Spec.ServiceAccountName == reqSA, vp.And3(pod.Spec.NodeName == callerPod.Spec.NodeName, pod.Spec.NodeName != "", pod.Spec.ServiceAccountName != "")))
	}
	vp.Assert(onNode, "requested-identity-runs-on-the-callers-node")
	vp.Assert(vp.And(!containsSlash(reqNs), !containsSlash(reqSA)), "requested-identity-is-well-formed")
}

func containsSlash(s string) bool {
	for i := 0; i < len(s); i++ {
		if s[i] == '/' {
			return true
		}
	}
	return false
}

// Mutant twin: "SANs may also come from the CSR" must be refuted (SANs never equal the CSR text unless the identity does).
func VerifC09Twin() {
	verifAuthOutcome.kind = 2
	verifAuthOutcome.caller = &security.Caller{Identities: []string{vp.String("id0", 4)}}
	verifImpersonation.ran = false
	var calls []ca.CertOpts
	s := &Server{ca: verifCA{calls: &calls}, monitoring: newMonitoringMetrics()}
	csr := vp.String("csr", 4)
	s.CreateCertificate(context.Background(), &pb.IstioCertificateRequest{Csr: csr})
	vp.Assert(len(calls) == 1 && calls[0].SubjectIDs[0] == csr, "twin")
}
