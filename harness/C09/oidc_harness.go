package authenticate

import (
	"context"
	"errors"
	"strings"

	oidc "github.com/coreos/go-oidc/v3/oidc"

	meshconfig "istio.io/api/mesh/v1alpha1"
	"istio.io/istio/pkg/config/mesh"
	vp "istio.io/istio/pkg/zzvp"
)

type verifMesh struct{}

func (verifMesh) Mesh() *meshconfig.MeshConfig { return &meshconfig.MeshConfig{TrustDomain: "td"} }
func (verifMesh) AddMeshHandler(h func()) *mesh.WatcherHandlerRegistration { return nil }
func (verifMesh) DeleteMeshHandler(*mesh.WatcherHandlerRegistration)       {}

// the token verifier (signature, issuer, expiry) is outside the claim: any verdict
func verifVerify(v *oidc.IDTokenVerifier, ctx context.Context, raw string) (*oidc.IDToken, error) {
	if vp.Choice("verifyFails", 2) == 1 {
		return nil, errors.New("bad signature")
	}
	return &oidc.IDToken{}, nil
}

// a verified token may carry ANY 'sub' and 'aud'
func verifClaims(t *oidc.IDToken, v any) error {
	p := v.(*JwtPayload)
	p.Sub = vp.String("sub", 28+2*vp.Tier())
	p.Aud = []string{vp.String("aud0", 3)}
	return nil
}

func VerifC09OIDC() {
	j := &JwtAuthenticator{meshHolder: verifMesh{}, audiences: []string{"aud"}}
	caller, err := j.authenticate(context.Background(), "token")
	vp.Reach("returned")
	if err != nil {
		vp.Assert(caller == nil, "error-yields-no-caller")
		return
	}
	sub := vp.String("sub", 28+2*vp.Tier())
	aud := vp.String("aud0", 3)
	vp.Assert(aud == "aud", "audience-checked")
	// reference reading of "system:serviceaccount:<ns>:<sa>": exactly four ':'-separated parts
	p0, r0, ok0 := strings.Cut(sub, ":")
	p1, r1, ok1 := strings.Cut(r0, ":")
	ns, sa, ok2 := strings.Cut(r1, ":")
	vp.Assert(vp.And3(ok0, ok1, ok2), "subject-has-four-parts")
	vp.Assert(vp.And3(p0 == "system", p1 == "serviceaccount", !strings.Contains(sa, ":")), "subject-is-a-service-account-name")
	vp.Assert(len(caller.Identities) == 1, "exactly-one-identity")
	vp.Assert(caller.Identities[0] == "spiffe://td/ns/"+ns+"/sa/"+sa, "identity-is-the-tokens-service-account")
}

// Mutant twin: "the audience is not checked" must be refuted.
func VerifC09OIDCTwin() {
	j := &JwtAuthenticator{meshHolder: verifMesh{}, audiences: []string{"aud"}}
	_, err := j.authenticate(context.Background(), "token")
	vp.Assert(err != nil, "twin")
}
