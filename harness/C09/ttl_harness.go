package util

// C09-K4: validity arithmetic of an issued certificate (genCertTemplateFromCSR, reached from IstioCA.Sign and
// SignWithCertChain through GenCertFromCSR): never beyond the signing certificate's expiry, never longer than the
// requested lifetime, nothing issued by an expired signer.

import (
	"crypto/x509"
	"crypto/x509/pkix"
	"math/big"
	"time"

	vp "istio.io/istio/pkg/zzvp"
)

func verifGenSerialNum() (*big.Int, error) { return big.NewInt(1), nil }

// the SAN extension (ASN.1) is outside this kernel
func verifBuildSAN(hosts string) (*pkix.Extension, error) { return &pkix.Extension{}, nil }

const verifTenYears = int64(10 * 365 * 24 * time.Hour)

func verifSigner() (*x509.Certificate, time.Time) {
	// the signer's validity is expressed relative to a reading of the clock so that a counterexample replays
	// against the wall clock
	base := time.Now()
	remaining, age := vp.Int64("signer.remaining"), vp.Int64("signer.age")
	vp.Assume(vp.And(remaining >= -int64(time.Hour), remaining <= verifTenYears))
	vp.Assume(vp.And(age >= 0, age <= verifTenYears))
	return &x509.Certificate{NotBefore: base.Add(-time.Duration(age)), NotAfter: base.Add(time.Duration(remaining))}, base
}

func VerifC09Validity() {
	ttlNs := vp.Int64("ttl")
	vp.Assume(vp.And(ttlNs >= int64(time.Second), ttlNs <= verifTenYears))
	ttl := time.Duration(ttlNs)
	var signer *x509.Certificate
	if vp.Choice("selfSigned", 2) == 0 {
		signer, _ = verifSigner()
	}
	before := time.Now()
	tpl, err := genCertTemplateFromCSR(&x509.CertificateRequest{}, []string{"spiffe://td/ns/a/sa/b"}, ttl, false, signer)
	after := time.Now()
	vp.Reach("returned")
	if signer != nil && !signer.NotAfter.After(before) {
		vp.Assert(err != nil, "an-expired-signer-issues-nothing")
	}
	if err != nil {
		return
	}
	vp.Assert(!tpl.NotAfter.After(after.Add(ttl)), "certificate-is-never-valid-longer-than-requested")
	if signer != nil {
		vp.Assert(!tpl.NotAfter.After(signer.NotAfter), "certificate-never-outlives-its-signer")
	}
	vp.Assert(tpl.NotBefore.Before(tpl.NotAfter), "validity-interval-is-not-empty")
	vp.Assert(!tpl.NotBefore.After(after), "certificate-is-valid-as-soon-as-it-is-issued")
	vp.Assert(!tpl.IsCA, "workload-certificate-is-not-a-ca")
}

// Mutant twin: "the requested lifetime is always granted in full" must be refuted (clamping exists).
func VerifC09ValidityTwin() {
	ttlNs := vp.Int64("ttl")
	vp.Assume(vp.And(ttlNs >= int64(time.Second), ttlNs <= verifTenYears))
	signer, _ := verifSigner()
	before := time.Now()
	tpl, err := genCertTemplateFromCSR(&x509.CertificateRequest{}, []string{"spiffe://td/ns/a/sa/b"}, time.Duration(ttlNs), false, signer)
	if err != nil {
		return
	}
	vp.Assert(!tpl.NotAfter.Before(before.Add(time.Duration(ttlNs))), "twin")
}
