package xds

import (
	"context"
	"errors"
	"sort"

	core "github.com/envoyproxy/go-control-plane/envoy/config/core/v3"
	discovery "github.com/envoyproxy/go-control-plane/envoy/service/discovery/v3"
	"google.golang.org/grpc/metadata"

	"istio.io/istio/pilot/pkg/model"
	v3 "istio.io/istio/pilot/pkg/xds/v3"
	"istio.io/istio/pkg/util/sets"
	vp "istio.io/istio/pkg/zzvp"
)

// ---- environment replacements shared by C03/C05 harnesses
func verifControlPlane(typ string) *core.ControlPlane { return nil }
func verifResourceSize(r model.Resources) int         { return 0 }

var verifNonceSeq int

func verifNonce(prefix string) string {
	verifNonceSeq++
	return vp.Name("nonce", verifNonceSeq)
}

// verifDeltaStream captures what the server sends; Send may fail.
type verifDeltaStream struct {
	sent     *[]*discovery.DeltaDiscoveryResponse
	failSend bool
}

func (s verifDeltaStream) Send(r *discovery.DeltaDiscoveryResponse) error {
	if s.failSend {
		return errors.New("stream closed")
	}
	*s.sent = append(*s.sent, r)
	return nil
}
func (s verifDeltaStream) Recv() (*discovery.DeltaDiscoveryRequest, error) { return nil, errors.New("eof") }
func (s verifDeltaStream) SetHeader(metadata.MD) error                     { return nil }
func (s verifDeltaStream) SendHeader(metadata.MD) error                    { return nil }
func (s verifDeltaStream) SetTrailer(metadata.MD)                          {}
func (s verifDeltaStream) Context() context.Context                        { return context.Background() }
func (s verifDeltaStream) SendMsg(m any) error                             { return nil }
func (s verifDeltaStream) RecvMsg(m any) error                             { return nil }

var verifUniverse = []string{"a", "b", "c", "d"}

// quick: 3 resource names, thorough: 4
func verifUniverseN() int { return 3 + vp.Tier() }

// verifGen is an arbitrary generator: it produces any subset of the name universe.
type verifGen struct {
	produce     [4]bool // which names exist now
	deltaAware  bool
	usedDelta   bool
	incremental bool
	deleted     []string
	honourNames bool // non-wildcard types generate only what is watched
	calls       *int
}

func (g verifGen) gen(w *model.WatchedResource) model.Resources {
	*g.calls++
	res := model.Resources{}
	for i, n := range verifUniverse[:verifUniverseN()] {
		if !g.produce[i] {
			continue
		}
		if g.honourNames && !w.ResourceNames.Contains(n) {
			continue
		}
		res = append(res, &discovery.Resource{Name: n})
	}
	return res
}

func (g verifGen) Generate(proxy *model.Proxy, w *model.WatchedResource, req *model.PushRequest) (model.Resources, model.XdsLogDetails, error) {
	return g.gen(w), model.XdsLogDetails{Incremental: g.incremental}, nil
}

type verifDeltaGen struct{ verifGen }

func (g verifDeltaGen) GenerateDeltas(proxy *model.Proxy, req *model.PushRequest, w *model.WatchedResource) (model.Resources, model.DeletedResources, model.XdsLogDetails, bool, error) {
	return g.gen(w), g.deleted, model.XdsLogDetails{Incremental: g.incremental}, g.usedDelta, nil
}

func verifSubset(p string) (sets.String, [4]bool) {
	s := sets.New[string]()
	var in [4]bool
	for i, n := range verifUniverse[:verifUniverseN()] {
		if vp.Choice(p+"."+n, 2) == 1 {
			s.Insert(n)
			in[i] = true
		}
	}
	return s, in
}

var verifDeltaTypes = []string{v3.ClusterType, v3.ListenerType, v3.EndpointType, v3.RouteType, v3.ExtensionConfigurationType}

func verifIsWildcardType(t string) bool { return t == v3.ClusterType || t == v3.ListenerType }

// One server-initiated delta push from an arbitrary bookkeeping state, with an arbitrary (plain) generator output:
// the delta client ends up holding what a state-of-the-world client holds.
func VerifC03DeltaPushEquivalence() {
	typeURL := verifDeltaTypes[vp.Choice("type", len(verifDeltaTypes))]
	wild := verifIsWildcardType(typeURL)
	W, inW := verifSubset("watched") // server's record of what the client has / subscribes to
	H, inH := verifSubset("held")    // what the delta client actually holds
	for i := range verifUniverse[:verifUniverseN()] {
		vp.Assume(!inH[i] || inW[i]) // invariant: the client holds nothing the server has no record of
	}
	_, inG := verifSubset("exists")
	failSend := vp.Choice("sendFails", 2) == 1
	calls := 0
	gen := verifGen{produce: inG, honourNames: !wild, calls: &calls}
	var sent []*discovery.DeltaDiscoveryResponse
	proxy := &model.Proxy{ID: "p", Type: model.SidecarProxy, Metadata: &model.NodeMetadata{}, WatchedResources: map[string]*model.WatchedResource{},
		LastPushContext: &model.PushContext{PushVersion: "v1"}}
	w := &model.WatchedResource{TypeUrl: typeURL, ResourceNames: W.Copy(), NonceSent: "n0"}
	proxy.WatchedResources[typeURL] = w
	s := &DiscoveryServer{Generators: map[string]model.XdsResourceGenerator{typeURL: gen}}
	con := &Connection{proxy: proxy, deltaStream: verifDeltaStream{sent: &sent, failSend: failSend}}
	req := &model.PushRequest{Push: proxy.LastPushContext, Forced: true}

	err := s.pushDeltaXds(con, w, req)
	vp.Reach("pushed")
	rec := proxy.WatchedResources[typeURL]
	if failSend {
		vp.Assert(err != nil, "send-failure-is-reported")
		vp.Assert(rec.NonceSent == "n0" && verifSameSet(rec.ResourceNames, W), "failed-send-records-nothing")
		return
	}
	vp.Assert(err == nil && len(sent) == 1, "one-response")
	resp := sent[0]
	got := sets.New[string]()
	for _, r := range resp.Resources {
		got.Insert(r.Name)
	}
	removed := sets.New(resp.RemovedResources...)
	for n := range removed {
		vp.Assert(!got.Contains(n), "never-removes-what-it-just-sent")
	}
	vp.Assert(sort.StringsAreSorted(resp.RemovedResources), "removed-names-are-sorted")
	// reference clients
	sotwHolds := sets.New[string]() // SotW root types replace; non-root types hold the watched names that exist
	for i, n := range verifUniverse[:verifUniverseN()] {
		if inG[i] && (wild || inW[i]) {
			sotwHolds.Insert(n)
		}
	}
	deltaHolds := H.Copy().DeleteAll(resp.RemovedResources...).Union(got)
	if typeURL == v3.ExtensionConfigurationType {
		vp.Assert(len(resp.RemovedResources) == 0, "ecds-never-carries-removals")
	} else {
		vp.Assert(verifSameSet(deltaHolds, sotwHolds), "delta-client-holds-what-sotw-client-holds")
		// everything that ceased to exist is explicitly removed
		for i, n := range verifUniverse[:verifUniverseN()] {
			if inH[i] && !inG[i] {
				vp.Assert(removed.Contains(n), "ceased-resources-are-removed")
			}
		}
	}
	// bookkeeping
	if wild {
		vp.Assert(verifSameSet(rec.ResourceNames, got), "wildcard-record-is-what-was-generated")
	} else {
		vp.Assert(verifSameSet(rec.ResourceNames, W), "subscription-record-unchanged-for-named-types")
	}
	vp.Assert(rec.NonceSent == resp.Nonce && resp.Nonce != "n0", "nonce-recorded")
}

// delta-aware generators: the recorded names follow the delta that was sent
func VerifC03DeltaAwareBookkeeping() {
	typeURL := verifDeltaTypes[vp.Choice("type", 2)] // CDS / LDS
	W, _ := verifSubset("watched")
	_, inG := verifSubset("changed")
	var deleted []string
	for _, n := range verifUniverse[:verifUniverseN()] {
		if vp.Choice("deleted."+n, 2) == 1 {
			deleted = append(deleted, n)
		}
	}
	for i, n := range verifUniverse[:verifUniverseN()] {
		for _, d := range deleted {
			vp.Assume(!(d == n && inG[i])) // a generator does not both send and delete a name
		}
	}
	calls := 0
	gen := verifDeltaGen{verifGen{produce: inG, usedDelta: true, deleted: deleted, calls: &calls}}
	var sent []*discovery.DeltaDiscoveryResponse
	proxy := &model.Proxy{ID: "p", Type: model.SidecarProxy, Metadata: &model.NodeMetadata{}, WatchedResources: map[string]*model.WatchedResource{},
		LastPushContext: &model.PushContext{PushVersion: "v1"}}
	w := &model.WatchedResource{TypeUrl: typeURL, ResourceNames: W.Copy(), NonceSent: "n0"}
	proxy.WatchedResources[typeURL] = w
	s := &DiscoveryServer{Generators: map[string]model.XdsResourceGenerator{typeURL: gen}}
	con := &Connection{proxy: proxy, deltaStream: verifDeltaStream{sent: &sent}}
	err := s.pushDeltaXds(con, w, &model.PushRequest{Push: proxy.LastPushContext, Forced: true})
	vp.Reach("pushed")
	vp.Assert(err == nil, "no-error")
	if len(sent) == 0 {
		return
	}
	resp := sent[0]
	want := W.Copy().DeleteAll(deleted...)
	for i, n := range verifUniverse[:verifUniverseN()] {
		if inG[i] {
			want.Insert(n)
		}
	}
	vp.Assert(verifSameSet(proxy.WatchedResources[typeURL].ResourceNames, want), "record-follows-the-delta")
	vp.Assert(len(resp.RemovedResources) == len(deleted), "generator-removals-are-forwarded")
}

// Mutant twin: "a full push never removes anything" must be refuted.
func VerifC03Twin() {
	W, _ := verifSubset("watched")
	_, inG := verifSubset("exists")
	calls := 0
	var sent []*discovery.DeltaDiscoveryResponse
	proxy := &model.Proxy{ID: "p", Type: model.SidecarProxy, Metadata: &model.NodeMetadata{}, WatchedResources: map[string]*model.WatchedResource{},
		LastPushContext: &model.PushContext{PushVersion: "v1"}}
	w := &model.WatchedResource{TypeUrl: v3.ClusterType, ResourceNames: W}
	proxy.WatchedResources[v3.ClusterType] = w
	s := &DiscoveryServer{Generators: map[string]model.XdsResourceGenerator{v3.ClusterType: verifGen{produce: inG, calls: &calls}}}
	con := &Connection{proxy: proxy, deltaStream: verifDeltaStream{sent: &sent}}
	s.pushDeltaXds(con, w, &model.PushRequest{Push: proxy.LastPushContext, Forced: true})
	vp.Assert(len(sent) == 1 && len(sent[0].RemovedResources) == 0, "twin")
}
