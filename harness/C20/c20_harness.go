package capture

import (
	"bytes"
	"errors"
	"io"
	"strconv"
	"strings"

	istiolog "istio.io/istio/pkg/log"
	vp "istio.io/istio/pkg/zzvp"
	"istio.io/istio/tools/common/config"
	"istio.io/istio/tools/istio-iptables/pkg/builder"
	"istio.io/istio/tools/istio-iptables/pkg/constants"
	dep "istio.io/istio/tools/istio-iptables/pkg/dependencies"
)

// ---------------------------------------------------------------- environment

type verifDeps struct{}

func (verifDeps) Run(log *istiolog.Scope, quiet bool, cmd constants.IptablesCmd, v *dep.IptablesVersion, stdin io.ReadSeeker, args ...string) (*bytes.Buffer, error) {
	return nil, errors.New("no iptables here")
}
func (verifDeps) DetectIptablesVersion(ipV6 bool) (dep.IptablesVersion, error) {
	return dep.IptablesVersion{}, nil
}

func verifExecuteCommands(cfg *IptablesConfigurator, iptVer, ipt6Ver *dep.IptablesVersion) error { return nil }
func verifLogConfig(cfg *IptablesConfigurator)                                                   {}

// ---------------------------------------------------------------- reference netfilter (nat table, IPv4)

type verifPacket struct {
	tcp        bool   // else udp
	src, dst   uint32 // IPv4
	dport      uint16
	outIf, inIf uint8 // 0 lo, 1 eth0, 2 eth1
	uid, gid   uint32
	established bool   // conntrack state RELATED/ESTABLISHED (else NEW)
	mark        uint32 // packet mark
	v6         bool // evaluate address matches on the 128-bit fields
	src6, dst6 [2]uint64
}

type verifRule struct {
	args []string // match arguments and target, after "-A chain" / "-I chain pos"
}

type verifTable map[string][]verifRule

// verifLoadTable builds the chains of one table from iptables argument vectors (-t T -A/-I/-N ...).
func verifLoadTable(cmds [][]string, table string) verifTable {
	t := verifTable{}
	for _, c := range cmds {
		if len(c) < 4 || c[0] != "-t" {
			panic("unexpected command " + strings.Join(c, " "))
		}
		if c[1] != table {
			continue
		}
		switch c[2] {
		case "-N":
			if _, ok := t[c[3]]; !ok {
				t[c[3]] = nil
			}
		case "-A":
			t[c[3]] = append(t[c[3]], verifRule{args: c[4:]})
		case "-I":
			pos, err := strconv.Atoi(c[4])
			if err != nil {
				panic("bad insert position")
			}
			rules := t[c[3]]
			if pos-1 > len(rules) {
				panic("insert beyond end")
			}
			nr := append([]verifRule{}, rules[:pos-1]...)
			nr = append(nr, verifRule{args: c[5:]})
			nr = append(nr, rules[pos-1:]...)
			t[c[3]] = nr
		default:
			panic("unknown op " + c[2])
		}
	}
	return t
}

func verifParseCIDR(s string) (uint32, uint32) {
	ip, bitsS, ok := strings.Cut(s, "/")
	bits := 32
	if ok {
		b, err := strconv.Atoi(bitsS)
		if err != nil {
			panic("bad cidr " + s)
		}
		bits = b
	}
	parts := strings.Split(ip, ".")
	if len(parts) != 4 {
		panic("not ipv4: " + s)
	}
	var a uint32
	for _, p := range parts {
		n, err := strconv.Atoi(p)
		if err != nil {
			panic("bad cidr " + s)
		}
		a = a<<8 | uint32(n)
	}
	var mask uint32
	if bits > 0 {
		mask = ^uint32(0) << (32 - uint(bits))
	}
	return a & mask, mask
}

// verifParseCIDR6 parses an IPv6 prefix (hex groups with at most one "::") into (address&mask, mask) as two 64-bit halves.
func verifParseCIDR6(s string) ([2]uint64, [2]uint64) {
	ip, bitsS, ok := strings.Cut(s, "/")
	bits := 128
	if ok {
		b, err := strconv.Atoi(bitsS)
		if err != nil {
			panic("bad cidr " + s)
		}
		bits = b
	}
	if !strings.Contains(ip, ":") {
		panic("not ipv6: " + s)
	}
	head, tail, compressed := strings.Cut(ip, "::")
	groups := func(x string) []uint64 {
		if x == "" {
			return nil
		}
		var out []uint64
		for _, g := range strings.Split(x, ":") {
			n, err := strconv.ParseUint(g, 16, 16)
			if err != nil {
				panic("bad ipv6 group in " + s)
			}
			out = append(out, n)
		}
		return out
	}
	h, t := groups(head), groups(tail)
	if !compressed && len(h) != 8 || len(h)+len(t) > 8 {
		panic("bad ipv6 " + s)
	}
	var g [8]uint64
	copy(g[:], h)
	copy(g[8-len(t):], t)
	var a [2]uint64
	for i := 0; i < 4; i++ {
		a[0] = a[0]<<16 | g[i]
		a[1] = a[1]<<16 | g[4+i]
	}
	var mask [2]uint64
	switch {
	case bits >= 128:
		mask = [2]uint64{^uint64(0), ^uint64(0)}
	case bits > 64:
		mask = [2]uint64{^uint64(0), ^uint64(0) << (128 - uint(bits))}
	case bits == 64:
		mask = [2]uint64{^uint64(0), 0}
	case bits > 0:
		mask = [2]uint64{^uint64(0) << (64 - uint(bits)), 0}
	}
	return [2]uint64{a[0] & mask[0], a[1] & mask[1]}, mask
}

func verifIfIndex(name string) uint8 {
	switch name {
	case "lo":
		return 0
	case "eth0":
		return 1
	case "eth1":
		return 2
	}
	panic("unknown interface " + name)
}

func verifPortIn(list string, port uint16) bool {
	r := false
	for _, p := range strings.Split(list, ",") {
		n, err := strconv.Atoi(p)
		if err != nil {
			panic("bad port " + p)
		}
		r = vp.Or(r, port == uint16(n))
	}
	return r
}

// verifMatch evaluates the match part of a rule; returns (matches, target, targetArg).
func verifMatch(args []string, p *verifPacket) (bool, string, string) {
	m := true
	neg := false
	target, targ := "", ""
	for i := 0; i < len(args); i++ {
		a := args[i]
		take := func() string {
			i++
			if i >= len(args) {
				panic("missing argument after " + a)
			}
			return args[i]
		}
		cond := true
		isCond := true
		switch a {
		case "!":
			neg = true
			continue
		case "-p":
			proto := take()
			switch proto {
			case "tcp":
				cond = p.tcp
			case "udp":
				cond = !p.tcp
			default:
				panic("proto " + proto)
			}
		case "-d":
			if p.v6 {
				n, mask := verifParseCIDR6(take())
				cond = vp.And(p.dst6[0]&mask[0] == n[0], p.dst6[1]&mask[1] == n[1])
			} else {
				n, mask := verifParseCIDR(take())
				cond = p.dst&mask == n
			}
		case "-s":
			if p.v6 {
				n, mask := verifParseCIDR6(take())
				cond = vp.And(p.src6[0]&mask[0] == n[0], p.src6[1]&mask[1] == n[1])
			} else {
				n, mask := verifParseCIDR(take())
				cond = p.src&mask == n
			}
		case "--dport":
			n, err := strconv.Atoi(take())
			if err != nil {
				panic("bad --dport")
			}
			cond = p.dport == uint16(n)
		case "--dports":
			cond = verifPortIn(take(), p.dport)
		case "-o":
			cond = p.outIf == verifIfIndex(take())
		case "-i":
			cond = p.inIf == verifIfIndex(take())
		case "--uid-owner":
			n, err := strconv.Atoi(take())
			if err != nil {
				panic("bad uid")
			}
			cond = p.uid == uint32(n)
		case "--gid-owner":
			n, err := strconv.Atoi(take())
			if err != nil {
				panic("bad gid")
			}
			cond = p.gid == uint32(n)
		case "-m":
			mod := take()
			if mod != "owner" && mod != "multiport" && mod != "conntrack" && mod != "mark" {
				panic("unmodelled match module " + mod)
			}
			isCond = false
		case "--ctstate":
			if st := take(); st != "RELATED,ESTABLISHED" {
				panic("unmodelled conntrack state " + st)
			}
			cond = p.established
		case "--mark":
			n, err := strconv.Atoi(take())
			if err != nil {
				panic("bad --mark")
			}
			cond = p.mark == uint32(n)
		case "--tproxy-mark", "--set-mark":
			take()
			isCond = false
		case "--on-port":
			targ = take()
			isCond = false
		case "--save-mark", "--restore-mark":
			isCond = false
		case "-j":
			target = take()
			isCond = false
		case "--to-ports", "--to-port":
			targ = take()
			isCond = false
		default:
			panic("unmodelled iptables argument " + a)
		}
		if isCond {
			if neg {
				cond = !cond
				neg = false
			}
			m = vp.And(m, cond)
		}
	}
	return m, target, targ
}

// verifEval walks a chain with first-match-wins semantics; no forking: the verdict is a term.
// Returns (terminal verdict reached, redirect port or 0 for ACCEPT/none).
func verifEval(t verifTable, chain string, p *verifPacket, depth int) (bool, int) {
	if depth > 8 {
		panic("chain recursion")
	}
	rules, ok := t[chain]
	if !ok && chain != "OUTPUT" && chain != "PREROUTING" && chain != "INPUT" && chain != "POSTROUTING" {
		panic("jump to unknown chain " + chain)
	}
	terminal, returned, port := false, false, 0
	for _, r := range rules {
		m, target, targ := verifMatch(r.args, p)
		active := vp.And(vp.Not(terminal), vp.Not(returned))
		hit := vp.And(active, m)
		switch target {
		case "RETURN":
			returned = vp.Or(returned, hit)
		case "ACCEPT":
			terminal = vp.Or(terminal, hit)
			port = vp.IteInt(hit, 0, port)
		case "MARK", "CONNMARK":
			// non-terminal; in these rule sets a mark is only set right before ACCEPT or for connection tracking
		case "REDIRECT", "TPROXY":
			n, err := strconv.Atoi(targ)
			if err != nil {
				panic("bad --to-ports")
			}
			terminal = vp.Or(terminal, hit)
			port = vp.IteInt(hit, n, port)
		default:
			t2, p2 := verifEval(t, target, p, depth+1)
			th := vp.And(hit, t2)
			terminal = vp.Or(terminal, th)
			port = vp.IteInt(th, p2, port)
		}
	}
	return terminal, port
}

// ---------------------------------------------------------------- configuration space

var (
	verifIncludeRanges = []string{"*", "", "10.0.0.0/8", "10.0.0.0/8,192.168.0.0/16"}
	verifExcludeRanges = []string{"", "10.1.0.0/16", "10.1.0.0/16,172.16.0.0/12"}
	verifOutPortsExcl  = []string{"", "8080", "8080,9090"}
	verifOutPortsIncl  = []string{"", "443"}
	verifInPortsIncl   = []string{"*", "", "80,443"}
	verifInPortsExcl   = []string{"", "22"}
	verifExcludeIf     = []string{"", "eth1"}
	verifUIDs          = []string{"1337", "1337,1338"}
)

func verifInCIDRs(list string, ip uint32) bool {
	r := false
	for _, c := range config.Split(list) {
		n, mask := verifParseCIDR(c)
		r = vp.Or(r, ip&mask == n)
	}
	return r
}

func verifInList(list string, v uint32) bool {
	r := false
	for _, s := range config.Split(list) {
		n, _ := strconv.Atoi(s)
		r = vp.Or(r, v == uint32(n))
	}
	return r
}

func verifConfig() *config.Config {
	nIncl, nExcl := len(verifIncludeRanges), len(verifExcludeRanges)
	if vp.Tier() == 0 {
		nIncl, nExcl = 3, 2
	}
	return verifConfigWith(verifIncludeRanges[vp.Choice("outboundIPRangesInclude", nIncl)], verifExcludeRanges[vp.Choice("outboundIPRangesExclude", nExcl)])
}

// verifReduced: quick-tier harnesses that build several rule sets per path keep the inbound and outbound-port-inclusion
// options (which do not interact with what they check) at their first value
var verifReduced = false

func verifPick(name string, n int) int {
	if verifReduced && vp.Tier() == 0 {
		return 0
	}
	return vp.Choice(name, n)
}

func verifConfigWith(include, exclude string) *config.Config {
	return &config.Config{
		ProxyPort: "15001", InboundCapturePort: "15006", InboundTunnelPort: "15008",
		ProxyUID:                verifUIDs[vp.Choice("proxyUID", len(verifUIDs))],
		ProxyGID:                "1337",
		InboundInterceptionMode: "REDIRECT",
		InboundTProxyMark:       "1337",
		InboundPortsInclude:     verifInPortsIncl[verifPick("inboundPortsInclude", len(verifInPortsIncl))],
		InboundPortsExclude:     verifInPortsExcl[verifPick("inboundPortsExclude", len(verifInPortsExcl))],
		OwnerGroupsInclude:      "*",
		OutboundPortsInclude:    verifOutPortsIncl[verifPick("outboundPortsInclude", len(verifOutPortsIncl))],
		OutboundPortsExclude:    verifOutPortsExcl[vp.Choice("outboundPortsExclude", 2+vp.Tier())],
		OutboundIPRangesInclude: include,
		OutboundIPRangesExclude: exclude,
		ExcludeInterfaces:       verifExcludeIf[vp.Choice("excludeInterfaces", len(verifExcludeIf))],
		HostIPv4LoopbackCidr:    "127.0.0.1/32",
	}
}

func verifPacketSym() *verifPacket {
	p := &verifPacket{tcp: vp.Bool("pkt.tcp"), src: vp.Uint32("pkt.src"), dst: vp.Uint32("pkt.dst"), dport: vp.Uint16("pkt.dport"),
		outIf: vp.Uint8("pkt.outIf"), inIf: vp.Uint8("pkt.inIf"), uid: vp.Uint32("pkt.uid"), gid: vp.Uint32("pkt.gid")}
	vp.Assume(vp.And(p.outIf <= 2, p.inIf <= 2))
	return p
}

// The statement, for the nat table in REDIRECT mode (IPv4): every packet, every configuration of the menu.
func VerifC20CaptureRules() {
	cfg := verifConfig()
	c := &IptablesConfigurator{ruleBuilder: builder.NewIptablesRuleBuilder(cfg), ext: verifDeps{}, cfg: cfg}
	if err := c.Run(); err != nil {
		vp.Unreachable("configuration-of-the-menu-is-accepted")
	}
	table := verifLoadTable(c.ruleBuilder.BuildV4(), "nat")
	p := verifPacketSym()
	vp.Reach("rules-built")

	proxyOwned := vp.Or(verifInList(cfg.ProxyUID, p.uid), verifInList(cfg.ProxyGID, p.gid))
	loopbackDst := p.dst == 0x7f000001 // HostIPv4LoopbackCidr 127.0.0.1/32
	onLo := p.outIf == 0
	ifExcluded := cfg.ExcludeInterfaces != "" && true
	outIfExcluded := vp.And(ifExcluded, p.outIf == 2)
	inIfExcluded := vp.And(ifExcluded, p.inIf == 2)

	// ---- OUTPUT (locally generated packets)
	term, port := verifEval(table, "OUTPUT", p, 0)
	toOutbound := vp.And(term, port == 15001)
	toInbound := vp.And(term, port == 15006)

	// (1) no loop: the proxy's own traffic is never sent to its outbound port
	vp.Assert(vp.Implies(proxyOwned, !toOutbound), "proxy-traffic-never-redirected-to-its-outbound-port")

	// (2) application outbound TCP is captured iff included and not excluded
	included := cfg.OutboundIPRangesInclude == "*" || false
	var inIncl bool
	if included {
		inIncl = true
	} else {
		inIncl = verifInCIDRs(cfg.OutboundIPRangesInclude, p.dst)
	}
	portIncl := false
	if cfg.OutboundPortsInclude != "" {
		portIncl = verifPortIn(cfg.OutboundPortsInclude, p.dport)
	}
	portExcl := false
	if cfg.OutboundPortsExclude != "" {
		portExcl = verifPortIn(cfg.OutboundPortsExclude, p.dport)
	}
	ipExcl := verifInCIDRs(cfg.OutboundIPRangesExclude, p.dst)
	appTCP := vp.And3(p.tcp, !proxyOwned, !onLo)
	want := vp.And3(vp.Or(inIncl, portIncl), vp.And3(!portExcl, !ipExcl, !loopbackDst), !outIfExcluded)
	vp.Assert(vp.Implies(appTCP, toOutbound == want), "app-outbound-tcp-captured-iff-included-and-not-excluded")
	vp.Assert(vp.Implies(vp.And(appTCP, !want), !term), "uncaptured-app-traffic-is-left-alone")

	// (4) loopback traffic between the application and itself is left alone
	vp.Assert(vp.Implies(vp.And3(onLo, !proxyOwned, !outIfExcluded), !term), "app-loopback-traffic-left-alone")
	// the proxy calling the app back over lo by pod IP goes through the inbound port (not the outbound one)
	vp.Assert(vp.Implies(vp.And(proxyOwned, toInbound), vp.And3(onLo, !loopbackDst, p.tcp)), "proxy-to-inbound-only-over-loopback-by-pod-ip")
	// non-TCP is never redirected by the nat rules when DNS capture is off
	vp.Assert(vp.Implies(!p.tcp, !term), "udp-not-captured-without-dns-capture")

	// ---- PREROUTING (packets arriving from outside)
	termIn, portIn := verifEval(table, "PREROUTING", p, 0)
	inIncluded := false
	switch cfg.InboundPortsInclude {
	case "*":
		inIncluded = true
	case "":
	default:
		inIncluded = verifPortIn(cfg.InboundPortsInclude, p.dport)
	}
	inExcluded := false
	if cfg.InboundPortsInclude == "*" && cfg.InboundPortsExclude != "" {
		inExcluded = verifPortIn(cfg.InboundPortsExclude, p.dport)
	}
	wantIn := vp.And3(p.tcp, vp.And(inIncluded, !inExcluded), vp.And(p.dport != 15008, !inIfExcluded))
	vp.Assert(vp.And(termIn, portIn == 15006) == wantIn, "inbound-tcp-captured-iff-port-included-and-not-excluded")
	vp.Assert(vp.Implies(termIn, portIn == 15006), "inbound-only-ever-redirected-to-the-inbound-port")
}

// "Rules for IPv4 and IPv6 express the same policy": for a dual-stack configuration whose address options come in
// corresponding IPv4/IPv6 pairs, an IPv4 packet and an IPv6 packet that agree on everything but the address family
// (and fall into corresponding ranges) get the same verdict from the two rule sets, in OUTPUT and in PREROUTING.
var (
	verifDualInclude = [][2]string{{"*", "*"}, {"", ""}, {"10.0.0.0/8", "fd00::/8"}}
	verifDualExclude = [][2]string{{"", ""}, {"10.1.0.0/16", "fd01::/16"}}
)

func verifJoin(a, b string) string {
	if a == "" || a == "*" {
		return a
	}
	return a + "," + b
}

func VerifC20IPv6Parity() {
	incl := verifDualInclude[vp.Choice("dual.include", len(verifDualInclude))]
	excl := verifDualExclude[vp.Choice("dual.exclude", len(verifDualExclude))]
	cfg := verifConfigWith(verifJoin(incl[0], incl[1]), verifJoin(excl[0], excl[1]))
	cfg.EnableIPv6 = true
	// DNS capture is part of the policy both families express: off, every resolver, or one resolver per family
	dns := vp.Choice("dual.dns", 3)
	switch dns {
	case 1:
		cfg.RedirectDNS, cfg.CaptureAllDNS = true, true
	case 2:
		cfg.RedirectDNS = true
		cfg.DNSServersV4, cfg.DNSServersV6 = []string{"10.96.0.10"}, []string{"fd00::a"}
	}
	c := &IptablesConfigurator{ruleBuilder: builder.NewIptablesRuleBuilder(cfg), ext: verifDeps{}, cfg: cfg}
	if err := c.Run(); err != nil {
		vp.Unreachable("configuration-of-the-menu-is-accepted")
	}
	t4 := verifLoadTable(c.ruleBuilder.BuildV4(), "nat")
	t6 := verifLoadTable(c.ruleBuilder.BuildV6(), "nat")
	vp.Reach("rules-built")
	p4 := verifPacketSym()
	p6 := *p4
	p6.v6 = true
	p6.src6 = [2]uint64{vp.Uint64("pkt6.srcHi"), vp.Uint64("pkt6.srcLo")}
	p6.dst6 = [2]uint64{vp.Uint64("pkt6.dstHi"), vp.Uint64("pkt6.dstLo")}
	in6 := func(cidr string, a [2]uint64) bool {
		n, mask := verifParseCIDR6(cidr)
		return vp.And(a[0]&mask[0] == n[0], a[1]&mask[1] == n[1])
	}
	in4 := func(cidr string, a uint32) bool {
		n, mask := verifParseCIDR(cidr)
		return a&mask == n
	}
	// corresponding packets: same class with respect to every address the two rule sets can mention
	vp.Assume(in4("127.0.0.1/32", p4.dst) == in6("::1/128", p6.dst6))
	vp.Assume(in4("127.0.0.1/32", p4.src) == in6("::1/128", p6.src6))
	vp.Assume(in4("127.0.0.6/32", p4.src) == in6("::6/128", p6.src6))
	vp.Assume(in4("127.0.0.6/32", p4.dst) == in6("::6/128", p6.dst6))
	for _, pr := range [][2]string{incl, excl} {
		if pr[0] != "" && pr[0] != "*" {
			vp.Assume(in4(pr[0], p4.dst) == in6(pr[1], p6.dst6))
		}
	}
	if dns == 2 {
		vp.Assume(in4("10.96.0.10/32", p4.dst) == in6("fd00::a/128", p6.dst6))
	}
	a4, port4 := verifEval(t4, "OUTPUT", p4, 0)
	a6, port6 := verifEval(t6, "OUTPUT", &p6, 0)
	vp.Assert(a4 == a6, "ipv4-and-ipv6-agree-on-capturing-outbound")
	vp.Assert(vp.Implies(vp.And(a4, a6), port4 == port6), "ipv4-and-ipv6-redirect-outbound-to-the-same-port")
	b4, q4 := verifEval(t4, "PREROUTING", p4, 0)
	b6, q6 := verifEval(t6, "PREROUTING", &p6, 0)
	vp.Assert(b4 == b6, "ipv4-and-ipv6-agree-on-capturing-inbound")
	vp.Assert(vp.Implies(vp.And(b4, b6), q4 == q6), "ipv4-and-ipv6-redirect-inbound-to-the-same-port")
}

// DNS capture (nat table): application DNS (udp and tcp port 53) goes to the agent's DNS port iff it is addressed to a
// captured server (or all DNS is captured); the proxy's own DNS never does (no loop); everything that is not port 53
// is decided exactly as without DNS capture.
func VerifC20DNSCapture() {
	verifReduced = true
	cfg := verifConfig()
	cfg.RedirectDNS = true
	cfg.CaptureAllDNS = vp.Choice("captureAllDNS", 2) == 1
	if !cfg.CaptureAllDNS {
		cfg.DNSServersV4 = []string{"10.96.0.10"}
	}
	c := &IptablesConfigurator{ruleBuilder: builder.NewIptablesRuleBuilder(cfg), ext: verifDeps{}, cfg: cfg}
	if err := c.Run(); err != nil {
		vp.Unreachable("configuration-of-the-menu-is-accepted")
	}
	table := verifLoadTable(c.ruleBuilder.BuildV4(), "nat")
	// the same configuration without DNS capture
	cfg0 := *cfg
	cfg0.RedirectDNS, cfg0.CaptureAllDNS, cfg0.DNSServersV4 = false, false, nil
	c0 := &IptablesConfigurator{ruleBuilder: builder.NewIptablesRuleBuilder(&cfg0), ext: verifDeps{}, cfg: &cfg0}
	if err := c0.Run(); err != nil {
		vp.Unreachable("configuration-of-the-menu-is-accepted")
	}
	table0 := verifLoadTable(c0.ruleBuilder.BuildV4(), "nat")
	p := verifPacketSym()
	vp.Reach("rules-built")

	proxyOwned := vp.Or(verifInList(cfg.ProxyUID, p.uid), verifInList(cfg.ProxyGID, p.gid))
	outIfExcluded := vp.And(cfg.ExcludeInterfaces != "", p.outIf == 2)
	term, port := verifEval(table, "OUTPUT", p, 0)
	toDNS := vp.And(term, port == 15053)
	isDNS := p.dport == 53
	vp.Assert(vp.Implies(proxyOwned, !toDNS), "proxy-dns-is-never-captured")
	vp.Assert(vp.Implies(toDNS, isDNS), "only-port-53-goes-to-the-dns-port")
	server := cfg.CaptureAllDNS || false
	var toServer bool
	if server {
		toServer = true
	} else {
		toServer = p.dst == 0x0a60000a // 10.96.0.10
	}
	// application DNS: captured iff addressed to a captured server (excluded interfaces are left alone; packets sent over
	// lo from 127.0.0.6 are the proxy's own inbound passthrough connections, not application traffic)
	passthrough := vp.And(p.src == 0x7f000006, p.outIf == 0)
	vp.Assert(vp.Implies(vp.And3(isDNS, vp.And(!proxyOwned, !passthrough), !outIfExcluded), toDNS == toServer), "app-dns-captured-iff-addressed-to-a-captured-server")
	// everything else is decided as without DNS capture
	term0, port0 := verifEval(table0, "OUTPUT", p, 0)
	vp.Assert(vp.Implies(!isDNS, vp.And(term == term0, vp.Implies(term, port == port0))), "non-dns-traffic-unaffected-by-dns-capture")
	// inbound is unaffected
	a, ap := verifEval(table, "PREROUTING", p, 0)
	b, bp := verifEval(table0, "PREROUTING", p, 0)
	vp.Assert(vp.And(a == b, vp.Implies(a, ap == bp)), "inbound-unaffected-by-dns-capture")
}

// TPROXY interception mode: a NEW inbound TCP connection (no mark, arriving on a real interface) is handed to the
// proxy's inbound port by the mangle table iff its port is included, not excluded and not the tunnel port - the same
// policy as in REDIRECT mode; the nat table does not touch inbound traffic in this mode.
func VerifC20TProxyInbound() {
	verifReduced = false
	cfg := verifConfigWith("*", "")
	cfg.InboundInterceptionMode = "TPROXY"
	c := &IptablesConfigurator{ruleBuilder: builder.NewIptablesRuleBuilder(cfg), ext: verifDeps{}, cfg: cfg}
	if err := c.Run(); err != nil {
		vp.Unreachable("configuration-of-the-menu-is-accepted")
	}
	mangle := verifLoadTable(c.ruleBuilder.BuildV4(), "mangle")
	nat := verifLoadTable(c.ruleBuilder.BuildV4(), "nat")
	p := verifPacketSym()
	vp.Reach("rules-built")
	// a new connection from outside: not established, unmarked, not on loopback, not to a loopback address
	vp.Assume(vp.And3(!p.established, p.mark == 0, p.inIf != 0))
	vp.Assume(p.dst != 0x7f000001)
	term, port := verifEval(mangle, "PREROUTING", p, 0)
	inIncluded := false
	switch cfg.InboundPortsInclude {
	case "*":
		inIncluded = true
	case "":
	default:
		inIncluded = verifPortIn(cfg.InboundPortsInclude, p.dport)
	}
	inExcluded := false
	if cfg.InboundPortsInclude == "*" && cfg.InboundPortsExclude != "" {
		inExcluded = verifPortIn(cfg.InboundPortsExclude, p.dport)
	}
	inIfExcluded := vp.And(cfg.ExcludeInterfaces != "", p.inIf == 2)
	want := vp.And3(p.tcp, vp.And(inIncluded, !inExcluded), !inIfExcluded)
	captured := vp.And(term, port == 15006)
	// F16 (open finding): the exemption of the tunnel port ("hit the tunnel port directly") is added to the nat table
	// only, which inbound traffic never traverses in TPROXY mode, so connections to 15008 are handed to the inbound
	// port. Kept under its own label; every other port must follow the policy exactly.
	vp.Assert(vp.Implies(p.dport != 15008, captured == want), "tproxy-inbound-tcp-captured-iff-port-included-and-not-excluded")
	vp.Assert(vp.Implies(p.dport == 15008, !captured), "tproxy-inbound-tcp-captured-iff-port-included-and-not-excluded/tunnel-port-exemption-is-only-in-the-nat-table")
	vp.Assert(vp.Implies(term, port == 15006), "tproxy-inbound-only-ever-goes-to-the-inbound-port")
	termNat, _ := verifEval(nat, "PREROUTING", p, 0)
	vp.Assert(!termNat, "nat-table-leaves-inbound-alone-in-tproxy-mode")
}

// Mutant twin: "excluded ranges are still captured" must be refuted.
func VerifC20Twin() {
	cfg := verifConfig()
	vp.Assume(cfg.OutboundIPRangesExclude != "" && cfg.OutboundIPRangesInclude == "*")
	c := &IptablesConfigurator{ruleBuilder: builder.NewIptablesRuleBuilder(cfg), ext: verifDeps{}, cfg: cfg}
	c.Run()
	table := verifLoadTable(c.ruleBuilder.BuildV4(), "nat")
	p := verifPacketSym()
	term, port := verifEval(table, "OUTPUT", p, 0)
	vp.Assume(vp.And3(p.tcp, p.outIf == 1, vp.And(p.uid == 1000, p.gid == 1000)))
	vp.Assume(verifInCIDRs(cfg.OutboundIPRangesExclude, p.dst))
	vp.Assert(vp.And(term, port == 15001), "twin")
}
