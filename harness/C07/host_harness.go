package host

import (
	"strings"

	vp "istio.io/istio/pkg/zzvp"
)

// inL: is concrete hostname h in the language of (possibly wildcarded) name w?
// Reference semantics written from the API doc: "*suffix" denotes every host ending in suffix.
func verifInL(w, h string) bool {
	wild := vp.And(len(w) > 0, strings.HasPrefix(w, "*"))
	return vp.IteBool(wild, strings.HasSuffix(h, strings.TrimPrefix(w, "*")), h == w)
}

func verifHostLen() int {
	if vp.Tier() == 1 {
		return 10
	}
	return 6
}

// K1(i): a common member implies Matches (completeness of the overlap test).
func VerifC07HostMatchesComplete() {
	L := verifHostLen()
	n := vp.String("n", L)
	o := vp.String("o", L)
	h := vp.String("h", L+2)
	vp.Assume(!strings.Contains(h, "*")) // concrete hosts carry no wildcard
	vp.Assume(vp.And(verifInL(n, h), verifInL(o, h)))
	vp.Reach("assert")
	vp.Assert(Name(n).Matches(Name(o)), "common-member-implies-matches")
}

// K1(ii): Matches implies a common member exists (soundness), via a constructed witness.
func VerifC07HostMatchesSound() {
	L := verifHostLen()
	n := vp.String("n", L)
	o := vp.String("o", L)
	// wildcards only in first position (admission rule for hosts)
	vp.Assume(!strings.Contains(strings.TrimPrefix(n, "*"), "*"))
	vp.Assume(!strings.Contains(strings.TrimPrefix(o, "*"), "*"))
	vp.Assume(Name(n).Matches(Name(o)))
	nw, ow := Name(n).IsWildCarded(), Name(o).IsWildCarded()
	// witness: the longer suffix (both wildcard), or the non-wildcard name
	var w string
	switch {
	case nw && ow:
		if len(n) < len(o) {
			w = "x" + o[1:]
		} else {
			w = "x" + n[1:]
		}
	case nw:
		w = o
	default:
		w = n
	}
	vp.Reach("assert")
	vp.Assert(vp.And(verifInL(n, w), verifInL(o, w)), "matches-implies-common-member")
}

// K1(iii): SubsetOf is language inclusion (soundness).
func VerifC07HostSubsetSound() {
	L := verifHostLen()
	n := vp.String("n", L)
	o := vp.String("o", L)
	h := vp.String("h", L+2)
	vp.Assume(!strings.Contains(h, "*"))
	vp.Assume(Name(n).SubsetOf(Name(o)))
	vp.Assume(verifInL(n, h))
	vp.Reach("assert")
	vp.Assert(verifInL(o, h), "subset-implies-inclusion")
}

// K1(v): symmetry of Matches, SubsetOf implies Matches, reflexivity.
func VerifC07HostAlgebra() {
	L := verifHostLen()
	n := vp.String("n", L)
	o := vp.String("o", L)
	a := Name(n).Matches(Name(o))
	b := Name(o).Matches(Name(n))
	vp.Reach("assert")
	vp.Assert(a == b, "matches-symmetric")
	vp.Assert(vp.Implies(Name(n).SubsetOf(Name(o)), a), "subset-implies-matches")
	vp.Assert(Name(n).SubsetOf(Name(n)), "subset-reflexive")
}

// Mutant twin: a deliberately wrong oracle (prefix instead of suffix) must be refuted.
func VerifC07HostTwin() {
	L := verifHostLen()
	n := vp.String("n", L)
	o := vp.String("o", L)
	h := vp.String("h", L+2)
	vp.Assume(!strings.Contains(h, "*"))
	inLwrong := func(w, h string) bool {
		wild := vp.And(len(w) > 0, strings.HasPrefix(w, "*"))
		return vp.IteBool(wild, strings.HasPrefix(h, strings.TrimPrefix(w, "*")), h == w)
	}
	vp.Assume(vp.And(inLwrong(n, h), inLwrong(o, h)))
	vp.Assert(Name(n).Matches(Name(o)), "twin")
}
