package model

import (
	"strings"
	"time"

	meshconfig "istio.io/api/mesh/v1alpha1"
	networking "istio.io/api/networking/v1alpha3"
	"istio.io/istio/pkg/config"
	"istio.io/istio/pkg/config/constants"
	"istio.io/istio/pkg/config/host"
	"istio.io/istio/pkg/config/protocol"
	"istio.io/istio/pkg/config/schema/gvk"
	"istio.io/istio/pkg/config/visibility"
	"istio.io/istio/pkg/kube/krt"
	"istio.io/istio/pkg/util/sets"
	vp "istio.io/istio/pkg/zzvp"
)

type verifSD struct {
	ServiceDiscovery // nil: only Services() is used
	svcs             []*Service
}

func (s verifSD) Services() []*Service { return s.svcs }

var (
	verifHosts      = []string{"a.com", "b.com"}
	verifSvcNs      = []string{"ns1", "ns2"}
	verifExportMenu = [][]string{nil, {"."}, {"~"}, {"ns1"}, {"ns2"}, {"*"}, {".", "ns2"}}
	verifMeshExport = [][]string{nil, {"."}, {"~"}}
)

type verifSvcShape struct {
	svc      *Service
	exportTo []string
}

func verifMakeSvc(i int, nExport int) *verifSvcShape {
	p := vp.Name("svc", i)
	h := verifHosts[vp.Choice(p+".host", len(verifHosts))]
	ns := verifSvcNs[vp.Choice(p+".ns", len(verifSvcNs))]
	ex := verifExportMenu[vp.Choice(p+".exportTo", nExport)]
	var set sets.Set[visibility.Instance]
	if ex != nil {
		set = sets.New[visibility.Instance]()
		for _, e := range ex {
			set.Insert(visibility.Instance(e))
		}
	}
	svc := &Service{
		Hostname:     host.Name(h),
		CreationTime: time.Unix(int64(1000+i), 0),
		Ports:        PortList{{Name: "http", Port: 80, Protocol: protocol.HTTP}},
		Attributes:   ServiceAttributes{Name: strings.TrimSuffix(h, ".com"), Namespace: ns, ExportTo: set, ServiceRegistry: "Kubernetes"},
	}
	return &verifSvcShape{svc: svc, exportTo: ex}
}

// verifVis is the one definition of visibility from the API docs (exportTo, mesh default).
func verifVis(s *verifSvcShape, meshDefault []string, ns string) bool {
	eff := s.exportTo
	if eff == nil {
		eff = meshDefault
		if eff == nil {
			eff = []string{"*"}
		}
	}
	for _, e := range eff {
		switch {
		case e == "*":
			return true
		case e == "." && s.svc.Attributes.Namespace == ns:
			return true
		case e == ns:
			return true
		}
	}
	return false
}

func verifPush(svcs []*verifSvcShape, meshDefault []string) *PushContext {
	var list []*Service
	for _, s := range svcs {
		list = append(list, s.svc)
	}
	env := &Environment{ServiceDiscovery: verifSD{svcs: list}, EndpointIndex: NewEndpointIndex(DisabledCache{})}
	ps := NewPushContext()
	ps.Mesh = &meshconfig.MeshConfig{RootNamespace: "istio-system", DefaultServiceExportTo: meshDefault}
	ps.initDefaultExportMaps()
	ps.initServiceRegistry(env, nil)
	return ps
}

func verifNSvcs() int { return 2 + vp.Tier() }

func verifContains(list []*Service, s *Service) int {
	n := 0
	for _, x := range list {
		if x == s {
			n++
		}
	}
	return n
}

// K2: one definition of visibility: the per-namespace export index, IsServiceVisible and the documented predicate agree.
func VerifC07Visibility() {
	var svcs []*verifSvcShape
	for i := 0; i < verifNSvcs(); i++ {
		svcs = append(svcs, verifMakeSvc(i, len(verifExportMenu)))
	}
	meshDefault := verifMeshExport[vp.Choice("meshDefaultExportTo", len(verifMeshExport))]
	ps := verifPush(svcs, meshDefault)
	vp.Reach("built")
	for _, ns := range []string{"ns1", "ns2", "ns3"} {
		exported := ps.servicesExportedToNamespace(ns)
		for _, s := range svcs {
			want := verifVis(s, meshDefault, ns)
			vp.Assert(ps.IsServiceVisible(s.svc, ns) == want, "IsServiceVisible-equals-documented-visibility")
			n := verifContains(exported, s.svc)
			vp.Assert((n > 0) == want, "export-index-equals-documented-visibility")
			vp.Assert(n <= 1, "service-listed-once-per-namespace")
		}
	}
}

// ---------------------------------------------------------------- K3/K4: Sidecar import

type verifHostEntry struct{ excluded bool; ns, name string }

var verifListenerMenu = [][]string{
	{"./*"}, {"*/*"}, {"ns2/*"}, {"*/a.com"}, {"ns2/a.com"}, {"./a.com"}, {"*/*.com"},
	{"~ns2/*", "*/*"}, {"./a.com", "ns2/b.com"}, {"~*/b.com", "*/*"},
}

func verifParseHosts(hosts []string, configNs string) []verifHostEntry {
	var out []verifHostEntry
	for _, h := range hosts {
		ns, name, _ := strings.Cut(h, "/")
		e := verifHostEntry{name: name}
		if strings.HasPrefix(ns, "~") {
			e.excluded = true
			ns = strings.TrimPrefix(ns, "~")
			if ns == "" {
				ns = "*"
			}
		}
		if ns == "." {
			ns = configNs
		}
		e.ns = ns
		out = append(out, e)
	}
	return out
}

func verifInLang(w, h string) bool {
	if strings.HasPrefix(w, "*") {
		return strings.HasSuffix(h, w[1:])
	}
	return w == h
}

// reference import predicate (Sidecar API: "namespace/dnsName", '*' and '.' namespaces, '~' exclusions)
func verifImported(entries []verifHostEntry, s *Service) (imported, excluded bool) {
	for _, e := range entries {
		nsOK := e.ns == "*" || e.ns == s.Attributes.Namespace
		if nsOK && verifInLang(e.name, string(s.Hostname)) {
			if e.excluded {
				excluded = true
			} else {
				imported = true
			}
		}
	}
	return
}

func VerifC07SidecarImport() {
	const configNs = "ns1"
	var svcs []*verifSvcShape
	for i := 0; i < verifNSvcs(); i++ {
		svcs = append(svcs, verifMakeSvc(i, 5))
	}
	meshDefault := verifMeshExport[vp.Choice("meshDefaultExportTo", 2)]
	hosts := verifListenerMenu[vp.Choice("egressHosts", len(verifListenerMenu))]
	ps := verifPush(svcs, meshDefault)
	ilw := convertIstioListenerToWrapper(ps, configNs, &networking.IstioEgressListener{Hosts: hosts})
	vp.Reach("converted")
	entries := verifParseHosts(hosts, configNs)
	// soundness: everything delivered is visible, imported and not excluded
	for _, got := range ilw.services {
		var shape *verifSvcShape
		for _, s := range svcs {
			if s.svc == got {
				shape = s
			}
		}
		vp.Assert(shape != nil, "delivered-service-is-a-registry-service")
		imp, exc := verifImported(entries, got)
		vp.Assert(verifVis(shape, meshDefault, configNs), "delivered-service-is-visible")
		vp.Assert(imp && !exc, "delivered-service-is-imported-and-not-excluded")
	}
	// completeness: visible + imported by a port-unrestricted host => some service of that hostname is delivered
	dup := false
	for i, a := range svcs {
		for _, b := range svcs[i+1:] {
			if a.svc.Hostname == b.svc.Hostname && a.svc.Attributes.Namespace == b.svc.Attributes.Namespace {
				dup = true
			}
		}
	}
	for _, s := range svcs {
		imp, exc := verifImported(entries, s.svc)
		if verifVis(s, meshDefault, configNs) && imp && !exc {
			found := false
			for _, got := range ilw.services {
				if got.Hostname == s.svc.Hostname {
					found = true
				}
			}
			if dup {
				// two services claim one hostname in one namespace (colliding ServiceEntries): reported under its own label
				vp.Assert(found, "visible-imported-service-is-delivered/same-hostname-twice-in-one-namespace")
			} else {
				vp.Assert(found, "visible-imported-service-is-delivered")
			}
		}
	}
	// at most one namespace per hostname
	for i, a := range ilw.services {
		for _, b := range ilw.services[i+1:] {
			vp.Assert(!(a.Hostname == b.Hostname && a.Attributes.Namespace != b.Attributes.Namespace), "one-namespace-per-hostname")
		}
	}
	// parity of the exact-host fast path with the scan path
	hostsByNs := map[string]hostClassification{}
	allExact := true
	for _, e := range entries {
		if e.excluded || strings.HasPrefix(e.name, "*") || e.ns == "*" {
			allExact = false
		}
	}
	if allExact {
		for _, e := range entries {
			hc, ok := hostsByNs[e.ns]
			if !ok {
				hc = hostClassification{exactHosts: sets.New[host.Name](), allHosts: []host.Name{}}
			}
			hc.exactHosts.Insert(host.Name(e.name))
			hc.allHosts = append(hc.allHosts, host.Name(e.name))
			hostsByNs[e.ns] = hc
		}
		scan := (&IstioEgressListenerWrapper{IstioListener: &networking.IstioEgressListener{Hosts: hosts}}).selectServices(ps.servicesExportedToNamespace(configNs), configNs, hostsByNs)
		// same set of hostnames delivered (order may differ; several same-named services collapse later)
		if !dup {
			for _, x := range scan {
				vp.Assert(verifContains(ilw.services, x) == 1, "fast-path-delivers-what-scan-path-delivers")
			}
			for _, x := range ilw.services {
				vp.Assert(verifContains(scan, x) == 1, "scan-path-delivers-what-fast-path-delivers")
			}
		}
	}
}

// K4: services inferred from the destinations of imported VirtualServices must be visible to the proxy's namespace.
func VerifC07VirtualServiceInference() {
	const configNs = "ns1"
	var svcs []*verifSvcShape
	for i := 0; i < verifNSvcs(); i++ {
		svcs = append(svcs, verifMakeSvc(i, 5))
	}
	meshDefault := verifMeshExport[vp.Choice("meshDefaultExportTo", 2)]
	hosts := [][]string{{"./a.com"}, {"*/a.com"}, {"ns2/a.com"}}[vp.Choice("egressHosts", 3)]
	ps := verifPush(svcs, meshDefault)
	vsNs := verifSvcNs[vp.Choice("vs.ns", 2)]
	vs := config.Config{
		Meta: config.Meta{GroupVersionKind: gvk.VirtualService, Name: "vs", Namespace: vsNs},
		Spec: &networking.VirtualService{
			Hosts: []string{"a.com"},
			Http: []*networking.HTTPRoute{{Route: []*networking.HTTPRouteDestination{{Destination: &networking.Destination{Host: "b.com"}}}}},
		},
	}
	ps.virtualServiceIndex.publicByGateway[constants.IstioMeshGateway] = []*config.Config{&vs}
	sidecar := &config.Config{
		Meta: config.Meta{GroupVersionKind: gvk.Sidecar, Name: "sc", Namespace: configNs},
		Spec: &networking.Sidecar{Egress: []*networking.IstioEgressListener{{Hosts: hosts}}},
	}
	scope := convertToSidecarScope(ps, sidecar, configNs)
	scope.initFunc() // lazily evaluated in production (EnableLazySidecarEvaluation); force it
	delivered := scope.Services()
	vp.Reach("scoped")
	for i, a := range svcs {
		for _, b := range svcs[i+1:] {
			// the (hostname, namespace) -> service map is only well defined without same-namespace collisions
			vp.Assume(!(a.svc.Hostname == b.svc.Hostname && a.svc.Attributes.Namespace == b.svc.Attributes.Namespace))
		}
	}
	for _, got := range delivered {
		for _, s := range svcs {
			if s.svc.Hostname == got.Hostname && s.svc.Attributes.Namespace == got.Attributes.Namespace {
				vp.Assert(verifVis(s, meshDefault, configNs), "scope-service-is-visible-to-proxy-namespace")
			}
		}
	}
}

// Mutant twin: an oracle that ignores exportTo ("every imported service is delivered") must be refuted.
func VerifC07ModelTwin() {
	const configNs = "ns1"
	svcs := []*verifSvcShape{verifMakeSvc(0, 5)}
	ps := verifPush(svcs, nil)
	ilw := convertIstioListenerToWrapper(ps, configNs, &networking.IstioEgressListener{Hosts: []string{"*/*"}})
	vp.Assert(len(ilw.services) == 1, "twin")
}

// K5: DestinationRule selection. A rule that is not exported to the proxy's namespace never shapes its configuration,
// and a rule that is exported is found: proxy namespace first, then the service's namespace, then the root namespace.
var verifDRExportMenu = [][]string{nil, {"*"}, {"."}, {"ns1"}, {".", "ns1"}, {".", "ns3"}, {"ns3"}}

type verifDRShape struct {
	cfg      config.Config
	exportTo []string
}

func verifDRVisible(d *verifDRShape, proxyNs string) bool {
	if d.exportTo == nil {
		return true // mesh default for DestinationRules is "*"
	}
	for _, e := range d.exportTo {
		switch {
		case e == "*":
			return true
		case e == "." && d.cfg.Namespace == proxyNs:
			return true
		case e == proxyNs:
			return true
		}
	}
	return false
}

func VerifC07DestinationRuleSelection() {
	const root = "istio-system"
	n := 1 + vp.Choice("rules", 2)
	var rules []*verifDRShape
	var cfgs []config.Config
	for i := 0; i < n; i++ {
		p := vp.Name("dr", i)
		ns := []string{"ns1", "ns2", root, "ns3"}[vp.Choice(p+".ns", 4)]
		ex := verifDRExportMenu[vp.Choice(p+".exportTo", len(verifDRExportMenu))]
		c := config.Config{
			Meta: config.Meta{GroupVersionKind: gvk.DestinationRule, Name: vp.Name("rule", i), Namespace: ns, CreationTimestamp: time.Unix(int64(2000+i), 0)},
			Spec: &networking.DestinationRule{Host: "b.ns2.svc.cluster.local", ExportTo: ex,
				TrafficPolicy: &networking.TrafficPolicy{Tls: &networking.ClientTLSSettings{Mode: networking.ClientTLSSettings_TLSmode(i + 1)}}},
		}
		rules = append(rules, &verifDRShape{cfg: c, exportTo: ex})
		cfgs = append(cfgs, c)
	}
	ps := NewPushContext()
	ps.Mesh = &meshconfig.MeshConfig{RootNamespace: root}
	ps.initDefaultExportMaps()
	ps.setDestinationRules(cfgs)
	svc := &Service{Hostname: "b.ns2.svc.cluster.local", Attributes: ServiceAttributes{Name: "b", Namespace: "ns2"}}
	proxyNs := []string{"ns1", "ns2", root, "ns3"}[vp.Choice("proxyNs", 4)]
	got := ps.destinationRule(proxyNs, svc)
	vp.Reach("selected")
	// soundness: every rule that contributed is exported to the proxy's namespace
	for _, cdr := range got {
		for _, from := range cdr.from {
			for _, r := range rules {
				if r.cfg.Name == from.Name && r.cfg.Namespace == from.Namespace {
					vp.Assert(verifDRVisible(r, proxyNs), "selected-destination-rule-is-exported-to-the-proxy-namespace")
				}
			}
		}
	}
	// completeness and order: the first of {proxy namespace, service namespace, root namespace} holding an exported
	// rule supplies the result
	level := func(ns string, privateOnly bool) bool {
		for _, r := range rules {
			if r.cfg.Namespace == ns && verifDRVisible(r, proxyNs) {
				if privateOnly && !(len(r.exportTo) == 1 && (r.exportTo[0] == "." || r.exportTo[0] == ns)) {
					continue
				}
				return true
			}
		}
		return false
	}
	// a proxy in the root namespace takes only the root namespace's PRIVATE rules first and otherwise prefers the
	// service's namespace over the (global) rules of its own namespace - documented in destinationRule()
	want := ""
	if proxyNs == root {
		switch {
		case level(root, true):
			want = root
		case level("ns2", false):
			want = "ns2"
		case level(root, false):
			want = root
		}
	} else {
		for _, ns := range []string{proxyNs, "ns2", root} {
			if level(ns, false) {
				want = ns
				break
			}
		}
	}
	if want == "" {
		vp.Assert(len(got) == 0, "no-exported-rule-no-destination-rule")
	} else {
		vp.Assert(len(got) > 0, "exported-destination-rule-is-found")
		for _, cdr := range got {
			for _, from := range cdr.from {
				vp.Assert(from.Namespace == want, "destination-rule-comes-from-the-first-namespace-in-lookup-order")
			}
		}
	}
}

// config.Config.DeepCopy goes through proto.Clone (protobuf reflection); for the DestinationRules of these harnesses a
// field-wise copy is the same thing
func verifConfigDeepCopy(c config.Config) config.Config {
	out := c
	if dr, ok := c.Spec.(*networking.DestinationRule); ok {
		out.Spec = &networking.DestinationRule{Host: dr.Host, TrafficPolicy: dr.TrafficPolicy, Subsets: append([]*networking.Subset(nil), dr.Subsets...),
			ExportTo: append([]string(nil), dr.ExportTo...), WorkloadSelector: dr.WorkloadSelector}
	}
	return out
}

// K6: VirtualService visibility. VirtualServicesForGateway hands a proxy namespace exactly the virtual services
// exported to it (exportTo resolved by the controller: "*", explicit namespaces, "~"; unset = mesh default), once each.
type verifVSList struct {
	krt.Collection[MergedVirtualService] // nil: only List is used
	list                                 []MergedVirtualService
}

func (c verifVSList) List() []MergedVirtualService { return c.list }

var verifVSExportMenu = [][]string{nil, {"*"}, {"ns1"}, {"ns2"}, {"ns1", "ns3"}, {"~"}, {"*", "ns1"}}

func VerifC07VirtualServiceVisibility() {
	n := 1 + vp.Choice("vs", 2)
	// a mesh default of "." is resolved into the ExportTo set by the VirtualService controller (not part of this kernel),
	// so an unset ExportTo only reaches initVirtualServices under a public default
	meshDefault := [][]string{nil, {"*"}}[vp.Choice("meshDefaultVSExportTo", 2)]
	var all []MergedVirtualService
	type shape struct {
		name, ns string
		exportTo []string
	}
	var shapes []shape
	for i := 0; i < n; i++ {
		p := vp.Name("vs", i)
		ns := []string{"ns1", "ns2"}[vp.Choice(p+".ns", 2)]
		ex := verifVSExportMenu[vp.Choice(p+".exportTo", len(verifVSExportMenu))]
		cfg := &config.Config{
			Meta: config.Meta{GroupVersionKind: gvk.VirtualService, Name: vp.Name("vs", i), Namespace: ns, CreationTimestamp: time.Unix(int64(2000+i), 0)},
			Spec: &networking.VirtualService{Hosts: []string{"a.com"}, Gateways: []string{"mesh"}, Http: []*networking.HTTPRoute{{
				Route: []*networking.HTTPRouteDestination{{Destination: &networking.Destination{Host: "a.com"}}}}}},
		}
		var set sets.Set[visibility.Instance]
		if ex != nil {
			set = sets.New[visibility.Instance]()
			for _, e := range ex {
				set.Insert(visibility.Instance(e))
			}
		}
		all = append(all, MergedVirtualService{Config: cfg, ExportTo: set})
		shapes = append(shapes, shape{name: cfg.Name, ns: ns, exportTo: ex})
	}
	env := &Environment{VirtualServiceController: &VirtualServiceController{outputs: Outputs{MergedVirtualServices: verifVSList{list: all}}}}
	ps := NewPushContext()
	ps.Mesh = &meshconfig.MeshConfig{RootNamespace: "istio-system", DefaultVirtualServiceExportTo: meshDefault}
	ps.initDefaultExportMaps()
	ps.initVirtualServices(env)
	proxyNs := []string{"ns1", "ns2", "ns3"}[vp.Choice("proxyNs", 3)]
	got := ps.VirtualServicesForGateway(proxyNs, "mesh")
	vp.Reach("listed")
	for _, s := range shapes {
		eff := s.exportTo
		if eff == nil {
			eff = meshDefault
			if eff == nil {
				eff = []string{"*"}
			}
		}
		visible, none := false, false
		for _, e := range eff {
			switch {
			case e == "~":
				none = true
			case e == "*", e == proxyNs, e == "." && s.ns == proxyNs:
				visible = true
			}
		}
		if none {
			visible = false
		}
		count := 0
		for _, g := range got {
			if g.Name == s.name && g.Namespace == s.ns {
				count++
			}
		}
		if visible {
			vp.Assert(count == 1, "exported-virtual-service-is-listed-once")
		} else {
			vp.Assert(count == 0, "virtual-service-not-exported-to-the-namespace-is-not-listed")
		}
	}
}
