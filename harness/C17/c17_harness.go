package model

import (
	"time"

	networking "istio.io/api/networking/v1alpha3"
	typev1beta1 "istio.io/api/type/v1beta1"
	"istio.io/istio/pkg/cluster"
	"istio.io/istio/pkg/config"
	"istio.io/istio/pkg/config/schema/gvk"
	vp "istio.io/istio/pkg/zzvp"
)

// verifStamp: a creation timestamp is either absent (the zero Time, as for file / in-memory sources) or any instant.
func verifStamp(name string) time.Time {
	if vp.Choice(name+".unset", 2) == 1 {
		return time.Time{}
	}
	return vp.Time(name)
}

var verifPerms3 = [][]int{{0, 1, 2}, {0, 2, 1}, {1, 0, 2}, {1, 2, 0}, {2, 0, 1}, {2, 1, 0}}

func verifDistinctIdentity(names, nss []string) {
	for i := range names {
		for j := i + 1; j < len(names); j++ {
			vp.Assume(vp.Or(names[i] != names[j], nss[i] != nss[j]))
		}
	}
}

// K1: sortConfigByCreationTime yields the same sequence for every input order (ties in creation time allowed).
func VerifC17SortConfigs() {
	names := []string{vp.String("n0", 2), vp.String("n1", 2), vp.String("n2", 2)}
	nss := []string{vp.String("ns0", 2), vp.String("ns1", 2), vp.String("ns2", 2)}
	verifDistinctIdentity(names, nss) // (namespace, name) is the object identity
	base := make([]config.Config, 3)
	for i := range base {
		base[i] = config.Config{Meta: config.Meta{Name: names[i], Namespace: nss[i], CreationTimestamp: verifStamp(vp.Name("t", i)), UID: vp.Name("uid", i)}}
	}
	ref := sortConfigByCreationTime([]config.Config{base[0], base[1], base[2]})
	perm := verifPerms3[1+vp.Choice("perm", 5)]
	got := sortConfigByCreationTime([]config.Config{base[perm[0]], base[perm[1]], base[perm[2]]})
	vp.Reach("sorted")
	for i := range ref {
		vp.Assert(ref[i].UID == got[i].UID, "config-sort-is-input-order-independent")
	}
}

// K1: the comparator is a total order on identities: antisymmetric, transitive, zero only on identical identity.
func VerifC17ComparatorOrder() {
	mk := func(p string) config.Config {
		return config.Config{Meta: config.Meta{Name: vp.String(p+".name", 2), Namespace: vp.String(p+".ns", 2), CreationTimestamp: verifStamp(p + ".t")}}
	}
	a, b, c := mk("a"), mk("b"), mk("c")
	ab, ba := configCompareByCreationTime(a, b), configCompareByCreationTime(b, a)
	bc, ac := configCompareByCreationTime(b, c), configCompareByCreationTime(a, c)
	vp.Reach("compared")
	vp.Assert((ab < 0) == (ba > 0) && (ab == 0) == (ba == 0), "comparator-antisymmetric")
	vp.Assert(!(ab <= 0 && bc <= 0) || ac <= 0, "comparator-transitive")
	vp.Assert(ab != 0 || (a.Name == b.Name && a.Namespace == b.Namespace), "comparator-zero-only-for-same-identity")
}

// K1: DestinationRule ordering (workload-selector first, then age, then name/namespace).
func VerifC17SortDestinationRules() {
	names := []string{vp.String("n0", 2), vp.String("n1", 2), vp.String("n2", 2)}
	nss := []string{"ns", "ns", vp.String("ns2", 2)}
	verifDistinctIdentity(names, nss)
	base := make([]config.Config, 3)
	for i := range base {
		dr := &networking.DestinationRule{Host: "h"}
		if vp.Choice(vp.Name("selector", i), 2) == 1 {
			dr.WorkloadSelector = &typev1beta1.WorkloadSelector{MatchLabels: map[string]string{"app": "x"}}
		}
		base[i] = config.Config{Meta: config.Meta{GroupVersionKind: gvk.DestinationRule, Name: names[i], Namespace: nss[i], CreationTimestamp: vp.Time(vp.Name("t", i)), UID: vp.Name("uid", i)}, Spec: dr}
	}
	ref := sortConfigBySelectorAndCreationTime([]config.Config{base[0], base[1], base[2]})
	perm := verifPerms3[1+vp.Choice("perm", 5)]
	got := sortConfigBySelectorAndCreationTime([]config.Config{base[perm[0]], base[perm[1]], base[perm[2]]})
	vp.Reach("sorted")
	for i := range ref {
		vp.Assert(ref[i].UID == got[i].UID, "destination-rule-sort-is-input-order-independent")
	}
}

// K1: services. Identity = (namespace, name) as the comparator's comment relies on.
func VerifC17SortServices() {
	names := []string{vp.String("n0", 2), vp.String("n1", 2), vp.String("n2", 2)}
	nss := []string{vp.String("ns0", 2), vp.String("ns1", 2), vp.String("ns2", 2)}
	verifDistinctIdentity(names, nss)
	base := make([]*Service, 3)
	for i := range base {
		base[i] = &Service{CreationTime: vp.Time(vp.Name("t", i)), Attributes: ServiceAttributes{Name: names[i], Namespace: nss[i]}}
	}
	ref := SortServicesByCreationTime([]*Service{base[0], base[1], base[2]})
	perm := verifPerms3[1+vp.Choice("perm", 5)]
	got := SortServicesByCreationTime([]*Service{base[perm[0]], base[perm[1]], base[perm[2]]})
	vp.Reach("sorted")
	for i := range ref {
		vp.Assert(ref[i] == got[i], "service-sort-is-input-order-independent")
	}
}

// K2: shard keys come out in one order whatever the map iteration order.
func VerifC17ShardKeys() {
	vp.PermuteMaps(true)
	es := &EndpointShards{Shards: map[ShardKey][]*IstioEndpoint{}}
	keys := []ShardKey{
		{Cluster: cluster.ID(vp.StringIn("c0", 2, "ab")), Provider: "Kubernetes"},
		{Cluster: cluster.ID(vp.StringIn("c1", 2, "ab")), Provider: "Kubernetes"},
		{Cluster: cluster.ID(vp.StringIn("c2", 2, "ab")), Provider: "External"},
	}
	vp.Assume(keys[0].Cluster != keys[1].Cluster)
	for _, k := range keys {
		es.Shards[k] = nil
	}
	got := es.Keys()
	vp.Reach("keys")
	vp.Assert(len(got) == 3, "all-shards-listed")
	for i := 0; i+1 < len(got); i++ {
		lt := got[i].Provider < got[i+1].Provider || (got[i].Provider == got[i+1].Provider && got[i].Cluster < got[i+1].Cluster)
		vp.Assert(lt, "shard-keys-strictly-ordered-for-every-map-order")
	}
}

// Mutant twin: without the identity precondition (two objects with the same name and namespace) the sort is
// input-order dependent; the harness must be able to see that.
func VerifC17Twin() {
	base := make([]config.Config, 3)
	for i := range base {
		base[i] = config.Config{Meta: config.Meta{Name: vp.String(vp.Name("n", i), 1), Namespace: "ns", CreationTimestamp: vp.Time(vp.Name("t", i)), UID: vp.Name("uid", i)}}
	}
	ref := sortConfigByCreationTime([]config.Config{base[0], base[1], base[2]})
	got := sortConfigByCreationTime([]config.Config{base[1], base[0], base[2]})
	for i := range ref {
		vp.Assert(ref[i].UID == got[i].UID, "twin")
	}
}
