package core

// C17: the gateway listeners of one generation come in the same order as those of the next (same state, same proxy),
// whatever the iteration order of the maps the builder keeps them in.

import (
	"time"

	meshconfig "istio.io/api/mesh/v1alpha1"
	networking "istio.io/api/networking/v1alpha3"

	"istio.io/istio/pilot/pkg/model"
	"istio.io/istio/pkg/config"
	"istio.io/istio/pkg/config/schema/gvk"
	vp "istio.io/istio/pkg/zzvp"
)

func VerifC17GatewayListenerOrder() {
	var servers []*networking.Server
	n := 2 + vp.Tier() // quick: 2 listeners, thorough: 3
	for i := 0; i < n; i++ {
		servers = append(servers, &networking.Server{Port: &networking.Port{Name: vp.Name("http", i), Number: uint32(8080 + i), Protocol: "HTTP"}, Hosts: []string{"*"}})
	}
	store := &model.VerifStore{Configs: map[config.GroupVersionKind][]config.Config{}}
	store.Configs[gvk.Gateway] = []config.Config{{
		Meta: config.Meta{GroupVersionKind: gvk.Gateway, Name: "gw", Namespace: "ns1", CreationTimestamp: time.Unix(2000, 0)},
		Spec: &networking.Gateway{Selector: map[string]string{"istio": "gw"}, Servers: servers},
	}}
	env := model.VerifWorld(&meshconfig.MeshConfig{RootNamespace: "istio-system"}, nil, store)
	push := model.NewPushContext()
	push.InitContext(env, nil, nil)
	model.VerifSingleNetwork(push)
	names := func() []string {
		node := &model.Proxy{Type: model.Router, ConfigNamespace: "ns1", IPAddresses: []string{"10.0.0.1"}, Labels: map[string]string{"istio": "gw"},
			Metadata: &model.NodeMetadata{Namespace: "ns1", Labels: map[string]string{"istio": "gw"}}, IstioVersion: model.MaxIstioVersion, ID: "gw"}
		node.SetSidecarScope(push)
		node.SetGatewaysForProxy(push)
		node.DiscoverIPMode()
		b := (&ConfigGeneratorImpl{Cache: model.DisabledCache{}}).buildGatewayListeners(NewListenerBuilder(node, push))
		var out []string
		for _, l := range b.gatewayListeners {
			out = append(out, l.Name)
		}
		return out
	}
	vp.PermuteMaps(true)
	a, b := names(), names()
	vp.Reach("generated-twice")
	vp.Assert(len(a) == n && len(b) == n, "every-server-port-gets-its-listener")
	for i := range a {
		if i < len(b) {
			vp.Assert(a[i] == b[i], "gateway-listener-order-is-the-same-in-every-generation")
		}
	}
}
