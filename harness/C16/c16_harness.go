package krt

// C16: a derived collection equals its transformation of the current inputs, and its event stream is consistent
// with that state - for the real krt runtime (static input collections, manyCollection with dependency tracking
// through Fetch + label filter, per-handler queues), under delay-bounded schedules of all its goroutines.

import (
	"sync"

	"istio.io/istio/pkg/kube/controllers"
	vp "istio.io/istio/pkg/zzvp"
)

type vPri struct {
	Name string
	Sel  string // selects the secondaries labelled app=<Sel>
	Val  int
}

func (v vPri) ResourceName() string { return v.Name }
func (v vPri) Equals(o vPri) bool   { return v.Name == o.Name && v.Sel == o.Sel && v.Val == o.Val }

type vSec struct {
	Name string
	App  string
	Val  int
}

func (v vSec) ResourceName() string         { return v.Name }
func (v vSec) Equals(o vSec) bool           { return v.Name == o.Name && v.App == o.App && v.Val == o.Val }
func (v vSec) GetLabels() map[string]string { return map[string]string{"app": v.App} }

type vOut struct {
	Name string
	Sum  int
	N    int
}

func (v vOut) ResourceName() string { return v.Name }
func (v vOut) Equals(o vOut) bool   { return v.Name == o.Name && v.Sum == o.Sum && v.N == o.N }

// the logging ticker of waitForCacheSync is dropped: wait for each collection or stop
func verifWaitForCacheSync(name string, stop <-chan struct{}, collections ...<-chan struct{}) bool {
	for _, col := range collections {
		select {
		case <-stop:
			return false
		case <-col:
		}
	}
	return true
}

func verifSmall(name string) int {
	v := vp.Int(name)
	vp.Assume(vp.And(v >= 0, v <= 3))
	return v
}

type verifStream struct {
	mu     sync.Mutex
	events []Event[vOut]
}

func (s *verifStream) handle(ev Event[vOut]) {
	s.mu.Lock()
	s.events = append(s.events, ev)
	s.mu.Unlock()
}

// replay checks the stream against the event contract and returns the state it describes
func (s *verifStream) replay() map[string]vOut {
	s.mu.Lock()
	defer s.mu.Unlock()
	st := map[string]vOut{}
	for _, ev := range s.events {
		switch ev.Event {
		case controllers.EventAdd:
			vp.Assert(ev.New != nil && ev.Old == nil, "add-event-carries-only-the-new-object")
			_, known := st[ev.New.Name]
			vp.Assert(!known, "no-duplicate-add")
			st[ev.New.Name] = *ev.New
		case controllers.EventUpdate:
			vp.Assert(ev.New != nil && ev.Old != nil, "update-event-carries-old-and-new")
			cur, known := st[ev.New.Name]
			vp.Assert(known, "no-update-of-an-unknown-key")
			vp.Assert(cur.Equals(*ev.Old), "update-event-old-is-the-last-delivered-object")
			st[ev.New.Name] = *ev.New
		case controllers.EventDelete:
			vp.Assert(ev.Old != nil, "delete-event-carries-the-old-object")
			_, known := st[ev.Old.Name]
			vp.Assert(known, "no-delete-of-an-unknown-key")
			delete(st, ev.Old.Name)
		}
	}
	return st
}

func verifHistory(steps int, twin bool, byIndex bool) {
	stop := make(chan struct{})
	pri := NewStaticCollection[vPri](nil, nil, WithStop(stop), WithName("pri"))
	sec := NewStaticCollection[vSec](nil, nil, WithStop(stop), WithName("sec"))
	byApp := NewIndex[string, vSec](sec, "app", func(s vSec) []string { return []string{s.App} })
	out := NewCollection(pri, func(ctx HandlerContext, p vPri) *vOut {
		var secs []vSec
		if byIndex {
			secs = Fetch(ctx, sec, FilterIndex(byApp, p.Sel)) // dependency through an index bucket
		} else {
			secs = Fetch(ctx, sec, FilterLabel(map[string]string{"app": p.Sel})) // dependency through a label filter
		}
		o := &vOut{Name: p.Name, Sum: p.Val, N: len(secs)}
		for _, s := range secs {
			o.Sum += s.Val
		}
		if o.Sum == 0 {
			return nil // a transformation may produce nothing
		}
		return o
	}, WithStop(stop), WithName("out"))
	out.WaitUntilSynced(stop)
	stream := &verifStream{}
	// (the index variant registers its handler first in the quick tier)
	late := (!byIndex || vp.Tier() > 0) && vp.Choice("lateHandler", 2) == 1
	if !late {
		out.Register(stream.handle)
	}
	gp, gs := map[string]vPri{}, map[string]vSec{}
	apps := []string{"x", "y"}
	// quick: one primary key, the first change creates it; thorough: two primary keys, any first change
	nPri := 1 + vp.Tier()
	for t := 0; t < steps; t++ {
		p := vp.Name("op", t)
		kind := 0
		if t > 0 || vp.Tier() > 0 {
			kind = vp.Choice(p+".kind", 4)
		}
		switch kind {
		case 0:
			o := vPri{Name: []string{"a", "b"}[vp.Choice(p+".name", nPri)], Sel: apps[vp.Choice(p+".sel", 2)], Val: verifSmall(p + ".val")}
			pri.UpdateObject(o)
			gp[o.Name] = o
		case 1:
			n := []string{"a", "b"}[vp.Choice(p+".name", nPri)]
			pri.DeleteObject(n)
			delete(gp, n)
		case 2:
			o := vSec{Name: []string{"s", "t"}[vp.Choice(p+".name", 2)], App: apps[vp.Choice(p+".app", 2)], Val: verifSmall(p + ".val")}
			sec.UpdateObject(o)
			gs[o.Name] = o
		default:
			n := []string{"s", "t"}[vp.Choice(p+".name", 2)]
			sec.DeleteObject(n)
			delete(gs, n)
		}
		// quick: every change is processed to quiescence before the next one arrives (the regime in which a missed
		// recomputation cannot be repaired by a later event); thorough: also changes arriving back to back
		if vp.Tier() == 0 || vp.Choice(p+".settle", 2) == 1 {
			vp.Quiesce()
		}
	}
	if late {
		out.Register(stream.handle) // a late handler first receives the current state as adds
	}
	vp.Quiesce()
	vp.Reach("quiescent")
	// contents = transformation of the current inputs
	want := map[string]vOut{}
	for _, p := range gp {
		o := vOut{Name: p.Name, Sum: p.Val}
		for _, s := range gs {
			if s.App == p.Sel {
				o.Sum += s.Val
				o.N++
			}
		}
		if o.Sum != 0 {
			want[o.Name] = o
		}
	}
	got := out.List()
	if twin {
		vp.Assert(len(got) == 0, "twin")
		close(stop)
		return
	}
	vp.Assert(len(got) == len(want), "list-equals-the-transformation-of-the-current-inputs")
	for _, g := range got {
		w, ok := want[g.Name]
		vp.Assert(ok, "list-equals-the-transformation-of-the-current-inputs")
		vp.Assert(g.Equals(w), "list-equals-the-transformation-of-the-current-inputs")
		k := out.GetKey(g.Name)
		vp.Assert(k != nil && k.Equals(g), "getkey-agrees-with-list")
	}
	for _, n := range []string{"a", "b"} {
		if _, ok := want[n]; !ok {
			vp.Assert(out.GetKey(n) == nil, "getkey-agrees-with-list")
		}
	}
	// the event stream reproduces the contents
	st := stream.replay()
	vp.Assert(len(st) == len(want), "replaying-the-event-stream-reproduces-the-contents")
	for n, w := range want {
		s, ok := st[n]
		vp.Assert(ok && s.Equals(w), "replaying-the-event-stream-reproduces-the-contents")
	}
	close(stop)
}

func VerifC16DerivedCollection() { verifHistory(3, false, false) }

// the same with the secondary collection fetched through an index (reverse-indexed dependencies)
func VerifC16IndexFetch() { verifHistory(3, false, true) }

// Mutant twin: "the derived collection stays empty" must be refuted.
func VerifC16Twin() { verifHistory(1, true, false) }
