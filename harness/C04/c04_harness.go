package xds

import (
	discovery "github.com/envoyproxy/go-control-plane/envoy/service/discovery/v3"
	"google.golang.org/genproto/googleapis/rpc/status"

	"istio.io/istio/pilot/pkg/model"
	v3 "istio.io/istio/pilot/pkg/xds/v3"
	"istio.io/istio/pkg/util/sets"
	"istio.io/istio/pkg/xds"
	vp "istio.io/istio/pkg/zzvp"
)

var verifC04Types = []string{v3.ClusterType, v3.EndpointType, v3.ListenerType, v3.RouteType, v3.SecretType, v3.AddressType}

var verifC04NameLists = [][]string{nil, {"a"}, {"b"}, {"a", "b"}, {"a", "a"}, {"b", "c"},
	// thorough only
	{"c"}, {"a", "b", "c"}, {"b", "a"}, {"a", "c", "a"}}

// quick uses the first 6 lists (first 4 for the record), thorough all of them
func verifC04NLists(quick int, all int) int {
	if vp.Tier() > 0 {
		return all
	}
	return quick
}

func verifSetOf(xs []string) sets.String { return sets.New(xs...) }

func verifSameSet(a, b sets.String) bool {
	if len(a) != len(b) {
		return false
	}
	for k := range a {
		if !b.Contains(k) {
			return false
		}
	}
	return true
}

// one-step SotW: arbitrary record, arbitrary request.
func VerifC04SotwStep() {
	typeURL := verifC04Types[vp.Choice("type", len(verifC04Types))]
	wild := xds.IsWildcardTypeURL(typeURL)
	proxy := &model.Proxy{ID: "p", WatchedResources: map[string]*model.WatchedResource{}}

	hasRec := vp.Choice("hasRecord", 2) == 1
	var prev []string
	nonceSent := ""
	always := false
	if hasRec {
		prev = verifC04NameLists[vp.Choice("prevNames", verifC04NLists(4, len(verifC04NameLists)))]
		nonceSent = vp.String("nonceSent", 3)
		always = vp.Choice("alwaysRespond", 2) == 1
		proxy.WatchedResources[typeURL] = &model.WatchedResource{
			TypeUrl: typeURL, ResourceNames: verifSetOf(prev), NonceSent: nonceSent, NonceAcked: "old", AlwaysRespond: always,
		}
	}
	names := verifC04NameLists[vp.Choice("reqNames", verifC04NLists(6, len(verifC04NameLists)))]
	nonce := vp.String("nonce", 3)
	hasErr := vp.Choice("hasErr", 2) == 1
	req := &discovery.DiscoveryRequest{TypeUrl: typeURL, ResponseNonce: nonce, ResourceNames: names, VersionInfo: "v"}
	if hasErr {
		req.ErrorDetail = &status.Status{Code: 3, Message: "rejected"}
	}

	respond, delta := xds.ShouldRespond(proxy, "con", req)
	vp.Reach("after")

	// reference classification, from the xDS protocol description
	prevSet, reqSet := verifSetOf(prev), verifSetOf(names)
	added := reqSet.Difference(prevSet)
	unsub := len(names) == 0 && !wild
	first := vp.Or(!hasRec, nonce == "")
	stale := vp.And(hasRec, nonce != nonceSent)
	rec := proxy.WatchedResources[typeURL]

	if hasErr {
		vp.Assert(!respond, "nack-silent")
		if hasRec {
			vp.Assert(rec != nil && verifSameSet(rec.ResourceNames, prevSet), "nack-keeps-names")
			vp.Assert(rec.NonceSent == nonceSent, "nack-keeps-nonce-sent")
			vp.Assert(rec.NonceAcked == "old", "nack-keeps-nonce-acked")
		} else {
			vp.Assert(rec == nil, "nack-creates-no-record")
		}
		return
	}
	if unsub {
		vp.Assert(!respond, "unsubscribe-silent")
		vp.Assert(rec == nil, "unsubscribe-drops-record")
		return
	}
	mustRespond := vp.Or(first, vp.And(!stale, vp.Or(len(added) > 0, always)))
	mustSilent := vp.And(!first, vp.Or(stale, vp.And(verifSameSet(prevSet, reqSet), !always)))
	vp.Assert(vp.Implies(mustRespond, respond), "responds-when-required")
	vp.Assert(vp.Implies(mustSilent, !respond), "silent-when-required")
	// stale: nothing changes
	vp.Assert(vp.Implies(vp.And(!first, stale), vp.And3(rec != nil && verifSameSet(rec.ResourceNames, prevSet), rec != nil && rec.NonceAcked == "old", rec != nil && rec.AlwaysRespond == always)), "stale-changes-nothing")
	// accepted: the record equals what the client asked for
	accepted := vp.Or(first, !stale)
	vp.Assert(vp.Implies(accepted, rec != nil && verifSameSet(rec.ResourceNames, reqSet)), "record-equals-request")
	vp.Assert(vp.Implies(vp.And(!first, !stale), rec != nil && !rec.AlwaysRespond), "always-respond-consumed")
	vp.Assert(vp.Implies(vp.And(!first, !stale), rec != nil && rec.NonceAcked == nonce), "ack-recorded")
	if respond {
		vp.Assert(vp.Implies(vp.And3(!first, !stale, !always), verifSameSet(delta.Subscribed, added)), "subscribed-delta-is-added")
	}
}

var verifC04DeltaLists = [][]string{nil, {"a"}, {"b"}, {"a", "b"}, {"*"}, {"*", "a"},
	// thorough only
	{"c"}, {"b", "c"}, {"a", "a"}, {"*", "*"}}

// one-step delta: arbitrary record, arbitrary request.
func VerifC04DeltaStep() {
	typeURL := verifC04Types[vp.Choice("type", len(verifC04Types))]
	proxy := &model.Proxy{ID: "p", WatchedResources: map[string]*model.WatchedResource{}}
	con := &Connection{proxy: proxy}

	hasRec := vp.Choice("hasRecord", 2) == 1
	var prev []string
	nonceSent := ""
	always := false
	prevWild := false
	if hasRec {
		prev = verifC04NameLists[vp.Choice("prevNames", verifC04NLists(4, len(verifC04NameLists)))]
		nonceSent = vp.String("nonceSent", 3)
		always = vp.Choice("alwaysRespond", 2) == 1
		prevWild = vp.Choice("prevWildcard", 2) == 1
		proxy.WatchedResources[typeURL] = &model.WatchedResource{
			TypeUrl: typeURL, ResourceNames: verifSetOf(prev), NonceSent: nonceSent, NonceAcked: "old", AlwaysRespond: always, Wildcard: prevWild,
		}
	}
	sub := verifC04DeltaLists[vp.Choice("subscribe", verifC04NLists(6, len(verifC04DeltaLists)))]
	unsubL := verifC04DeltaLists[vp.Choice("unsubscribe", verifC04NLists(5, len(verifC04DeltaLists)))]
	var initial map[string]string
	if vp.Choice("initial", 2) == 1 {
		initial = map[string]string{"c": "v1"}
	}
	nonce := vp.String("nonce", 3)
	hasErr := vp.Choice("hasErr", 2) == 1
	req := &discovery.DeltaDiscoveryRequest{TypeUrl: typeURL, ResponseNonce: nonce, ResourceNamesSubscribe: sub,
		ResourceNamesUnsubscribe: unsubL, InitialResourceVersions: initial}
	if hasErr {
		req.ErrorDetail = &status.Status{Code: 3, Message: "rejected"}
	}

	respond := shouldRespondDelta(con, req)
	vp.Reach("after")
	rec := proxy.WatchedResources[typeURL]
	prevSet := verifSetOf(prev)

	if hasErr {
		vp.Assert(!respond, "nack-silent")
		if hasRec {
			vp.Assert(rec != nil && verifSameSet(rec.ResourceNames, prevSet), "nack-keeps-names")
			vp.Assert(rec.NonceSent == nonceSent, "nack-keeps-nonce-sent")
		} else {
			vp.Assert(rec == nil, "nack-creates-no-record")
		}
		return
	}
	// reference subscription after the request (xDS incremental spec)
	want := verifSetOf(prev)
	addedAny := false
	for _, r := range sub {
		if !want.Contains(r) {
			addedAny = true
		}
		want.Insert(r)
	}
	for r := range initial {
		if !want.Contains(r) {
			addedAny = true
		}
		want.Insert(r)
	}
	for _, r := range unsubL {
		want.Delete(r)
	}
	want.Delete("*")
	generatorManaged := typeURL == v3.AddressType

	if !hasRec {
		vp.Assert(respond, "first-request-answered")
		if !generatorManaged || !rec.Wildcard {
			vp.Assert(rec != nil && verifSameSet(rec.ResourceNames, want), "first-record-equals-request")
		}
		return
	}
	stale := vp.And(nonce != "", nonce != nonceSent)
	vp.Assert(vp.Implies(stale, !respond), "stale-silent")
	vp.Assert(vp.Implies(stale, vp.And(rec != nil && verifSameSet(rec.ResourceNames, prevSet), rec != nil && rec.AlwaysRespond == always)), "stale-changes-nothing")
	if !(generatorManaged && prevWild) {
		vp.Assert(vp.Implies(!stale, rec != nil && verifSameSet(rec.ResourceNames, want)), "record-equals-subscription")
		// adding a name that is actually new must be answered
		addsNew := addedAny && !verifSameSet(want, prevSet)
		vp.Assert(vp.Implies(vp.And(!stale, addsNew), respond), "added-names-answered")
	}
	pureAck := vp.And3(!stale, nonce != "", len(sub) == 0 && len(unsubL) == 0 && len(initial) == 0)
	vp.Assert(vp.Implies(vp.And(pureAck, !always), !respond), "ack-silent")
	vp.Assert(vp.Implies(vp.And(pureAck, always), respond), "warming-answered")
	vp.Assert(vp.Implies(!stale, rec != nil && !rec.AlwaysRespond), "always-respond-consumed")
}

// Mutant twin: an oracle claiming a stale nonce must be answered has to be refuted.
func VerifC04Twin() {
	typeURL := v3.ClusterType
	proxy := &model.Proxy{ID: "p", WatchedResources: map[string]*model.WatchedResource{}}
	nonceSent := vp.String("nonceSent", 3)
	proxy.WatchedResources[typeURL] = &model.WatchedResource{TypeUrl: typeURL, ResourceNames: verifSetOf(nil), NonceSent: nonceSent}
	nonce := vp.String("nonce", 3)
	req := &discovery.DiscoveryRequest{TypeUrl: typeURL, ResponseNonce: nonce}
	respond, _ := xds.ShouldRespond(proxy, "con", req)
	vp.Assert(vp.Implies(nonce != nonceSent, respond), "twin")
}
