package xds

import (
	meshconfig "istio.io/api/mesh/v1alpha1"
	"istio.io/istio/pilot/pkg/model"
	"istio.io/istio/pkg/config/schema/kind"
	"istio.io/istio/pkg/util/sets"
	vp "istio.io/istio/pkg/zzvp"
)

var verifC01ProxyTypes = []model.NodeType{model.SidecarProxy, model.Router, model.Waypoint}

var verifC01Reasons = []model.TriggerReason{model.EndpointUpdate, model.HeadlessEndpointUpdate, model.ServiceUpdate, model.ConfigUpdate, model.ProxyUpdate}

func verifC01Proxy() *model.Proxy {
	t := verifC01ProxyTypes[vp.Choice("proxyType", len(verifC01ProxyTypes))]
	p := &model.Proxy{
		ID: "p", Type: t, ConfigNamespace: "ns1",
		Metadata:         &model.NodeMetadata{Namespace: "ns1"},
		WatchedResources: map[string]*model.WatchedResource{},
	}
	if t == model.Router {
		p.MergedGateway = &model.MergedGateway{}
		p.PrevMergedGateway = &model.PrevMergedGateway{}
	}
	return p
}

var verifC01Push = &model.PushContext{Mesh: &meshconfig.MeshConfig{RootNamespace: "istio-system"}}

// verifC01Kinds: every config kind the control plane knows.
func verifC01NumKinds() int {
	n := 1
	for kind.Kind(n).String() != "Unknown" {
		n++
	}
	return n
}

func verifC01Kind(name string) kind.Kind {
	return kind.Kind(vp.Choice(name, verifC01NumKinds()))
}

// the kinds that the endpoint / service event flows put into push requests
var verifC01FlowKinds = []kind.Kind{kind.ServiceEntry, kind.Endpoints, kind.DNSName, kind.VirtualService, kind.DestinationRule, kind.Address}

// verifC01Req: a request with one key (any kind; symbolic name/namespace), one trigger reason (or none), not forced.
func verifC01Req(p string, allKinds bool) *model.PushRequest {
	var kd kind.Kind
	if allKinds {
		kd = verifC01Kind(p + ".kind")
	} else {
		kd = verifC01FlowKinds[vp.Choice(p+".kind", len(verifC01FlowKinds))]
	}
	k := model.ConfigKey{Kind: kd, Name: vp.String(p+".name", 2), Namespace: vp.String(p+".ns", 3)}
	req := &model.PushRequest{ConfigsUpdated: sets.New(k), Push: verifC01Push}
	// precondition: every request handed to ConfigUpdate carries a trigger reason (all producers set one)
	req.Reason = model.NewReasonStats(verifC01Reasons[vp.Choice(p+".reason", len(verifC01Reasons))])
	return req
}

type verifNeeds struct{ cds, eds, lds, rds bool }

func verifC01Decide(req *model.PushRequest, proxy *model.Proxy) verifNeeds {
	_, cds := cdsNeedsPush(req, proxy)
	return verifNeeds{cds: cds, eds: edsNeedsPush(req, proxy), lds: ldsNeedsPush(proxy, req), rds: rdsNeedsPush(req, proxy)}
}

// K2: batching (debounce/queue merge) never loses a push that a constituent change required.
func VerifC01MergeMonotone() {
	proxy := verifC01Proxy()
	a, b := verifC01Req("a", true), verifC01Req("b", vp.Tier() == 1)
	na := verifC01Decide(a, proxy)
	nb := verifC01Decide(b, proxy)
	m := a.CopyMerge(b)
	nm := verifC01Decide(m, proxy)
	vp.Reach("decided")
	vp.Assert(vp.Implies(vp.Or(na.cds, nb.cds), nm.cds), "merge-keeps-cds-push")
	vp.Assert(vp.Implies(vp.Or(na.eds, nb.eds), nm.eds), "merge-keeps-eds-push")
	vp.Assert(vp.Implies(vp.Or(na.lds, nb.lds), nm.lds), "merge-keeps-lds-push")
	vp.Assert(vp.Implies(vp.Or(na.rds, nb.rds), nm.rds), "merge-keeps-rds-push")
}

// K1: a forced request pushes every type and is never narrowed.
func VerifC01Forced() {
	proxy := verifC01Proxy()
	a := verifC01Req("a", true)
	vp.Reach("decided")
	a.Forced = true
	f := verifC01Decide(a, proxy)
	vp.Assert(f.cds && f.eds && f.lds && f.rds, "forced-pushes-every-type")
	r, need := DefaultProxyNeedsPush(proxy, a)
	vp.Assert(need && r == a, "forced-is-never-filtered")
}

// Mutant twin: "a DestinationRule change never needs CDS" must be refuted.
func VerifC01Twin() {
	proxy := verifC01Proxy()
	a := verifC01Req("a", true)
	vp.Assume(a.ConfigsUpdated.Contains(model.ConfigKey{Kind: kind.DestinationRule, Name: "x", Namespace: "y"}))
	n := verifC01Decide(a, proxy)
	vp.Assert(!n.cds, "twin")
}
