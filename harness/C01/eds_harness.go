package xds

import (
	"k8s.io/apimachinery/pkg/types"

	meshconfig "istio.io/api/mesh/v1alpha1"
	networking "istio.io/api/networking/v1alpha3"
	"istio.io/istio/pilot/pkg/model"
	"istio.io/istio/pkg/config"
	"istio.io/istio/pkg/config/host"
	"istio.io/istio/pkg/config/schema/gvk"
	"istio.io/istio/pkg/config/schema/kind"
	"istio.io/istio/pkg/util/sets"
	vp "istio.io/istio/pkg/zzvp"
)

var verifDRNames = []types.NamespacedName{{Namespace: "ns1", Name: "override"}, {Namespace: "backend", Name: "default"}, {Namespace: "istio-system", Name: "global"}}

func verifDR(i int) *model.ConsolidatedDestRule {
	n := verifDRNames[i]
	c := &config.Config{Meta: config.Meta{GroupVersionKind: gvk.DestinationRule, Name: n.Name, Namespace: n.Namespace}, Spec: &networking.DestinationRule{Host: "svc.backend"}}
	return model.VerifConsolidatedDR(c, n)
}

// K7: narrowing of partial EDS pushes. A cluster whose governing DestinationRule (the one that applied
// before the change, or the one that applies now) is among the changed rules must be regenerated; likewise for
// its service and for PeerAuthentication of its namespace / the root namespace. Anything else would leave a
// resource that is not resent although it differs.
func VerifC01EdsNarrowing() {
	const hostname = host.Name("svc.backend")
	// which rule applied before / applies now (or none)
	prevIdx := vp.Choice("prevRule", 4) // 3 = none
	curIdx := vp.Choice("currentRule", 4)
	proxy := &model.Proxy{ID: "p", Type: model.SidecarProxy, ConfigNamespace: "ns1", Metadata: &model.NodeMetadata{Namespace: "ns1"}}
	hasPrevScope := vp.Choice("hasPrevScope", 2) == 1
	if hasPrevScope {
		if prevIdx < 3 {
			proxy.PrevSidecarScope = model.VerifScopeWithDRs("ns1", hostname, verifDR(prevIdx))
		} else {
			proxy.PrevSidecarScope = model.VerifScopeWithDRs("ns1", hostname)
		}
	}
	var cur *model.ConsolidatedDestRule
	if curIdx < 3 {
		cur = verifDR(curIdx)
	}
	changed := sets.New[types.NamespacedName]()
	inChanged := [3]bool{}
	for i, n := range verifDRNames {
		if vp.Choice(vp.Name("changed", i), 2) == 1 {
			changed.Insert(n)
			inChanged[i] = true
		}
	}
	got := clusterAffectedByChangedDrs(proxy, cur, hostname, changed)
	vp.Reach("decided")
	must := (curIdx < 3 && inChanged[curIdx]) || (hasPrevScope && prevIdx < 3 && inChanged[prevIdx])
	vp.Assert(!must || got, "cluster-with-changed-governing-rule-is-regenerated")

	// PeerAuthentication: same namespace as the service or the root namespace
	svc := &model.Service{Hostname: hostname, Attributes: model.ServiceAttributes{Namespace: "backend"}}
	authnNs := sets.New[string]()
	paNs := vp.String("changedPeerAuthnNamespace", 8)
	if vp.Choice("peerAuthnChanged", 2) == 1 {
		authnNs.Insert(paNs)
		gotA := clusterAffectedByChangedAuthn(svc, authnNs, "istio-system")
		vp.Assert(vp.Implies(vp.Or(paNs == "backend", paNs == "istio-system"), gotA), "cluster-under-changed-peer-authentication-is-regenerated")
	}
	// service / endpoints updates
	upd := sets.New[string]()
	name := vp.String("updatedService", 11)
	upd.Insert(name)
	vp.Assert(vp.Implies(name == "svc.backend", affectedService(proxy, upd, "outbound|80||svc.backend")), "cluster-of-updated-service-is-regenerated")
}

// K7: a partial (narrowed) EDS push is only allowed when every changed key is of a kind the narrowing understands.
func VerifC01PartialPushAllowed() {
	a := verifC01Req("a", true)
	a.Push = &model.PushContext{Mesh: &meshconfig.MeshConfig{RootNamespace: "istio-system"}}
	forced := vp.Choice("forced", 2) == 1
	a.Forced = forced
	got := canSendPartialFullPushes(a)
	vp.Reach("decided")
	var k model.ConfigKey
	for x := range a.ConfigsUpdated {
		k = x
	}
	understood := k.Kind == kind.Endpoints || k.Kind == kind.ServiceEntry || k.Kind == kind.DestinationRule || k.Kind == kind.PeerAuthentication
	vp.Assert(vp.Implies(got, vp.And(!forced, understood)), "partial-push-only-for-kinds-the-narrowing-handles")
	vp.Assert(vp.Implies(vp.And(got, k.Kind == kind.PeerAuthentication), k.Namespace != "istio-system"), "mesh-wide-peer-authentication-is-never-narrowed")
}
