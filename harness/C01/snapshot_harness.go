package model

// C01-K6 / C10-K5: an incrementally updated configuration snapshot equals a freshly built one.
//
// PushContext.updateContext carries over every index whose inputs did not change according to
// PushRequest.ConfigsUpdated. The property "a proxy converges to the configuration of the latest snapshot"
// rests on that read/write-set being closed: for every single changed object, every observable a generator
// reads from the incremental snapshot must equal what it reads from createNewContext on the same store.

import (
	"strings"
	"time"

	"google.golang.org/protobuf/types/known/wrapperspb"

	extensions "istio.io/api/extensions/v1alpha1"
	meshconfig "istio.io/api/mesh/v1alpha1"
	networking "istio.io/api/networking/v1alpha3"
	networkingBeta "istio.io/api/networking/v1beta1"
	securityBeta "istio.io/api/security/v1beta1"
	telemetry "istio.io/api/telemetry/v1alpha1"
	typeBeta "istio.io/api/type/v1beta1"

	pilotnetworking "istio.io/istio/pilot/pkg/networking"
	"istio.io/istio/pkg/config"
	"istio.io/istio/pkg/config/host"
	"istio.io/istio/pkg/config/protocol"
	"istio.io/istio/pkg/config/schema/gvk"
	"istio.io/istio/pkg/config/schema/kind"
	"istio.io/istio/pkg/kube/krt"
	"istio.io/istio/pkg/util/sets"
	vp "istio.io/istio/pkg/zzvp"
)

type verifSnapSD struct {
	ServiceDiscovery // nil: only the methods below are used
	svcs             []*Service
}

func (s *verifSnapSD) Services() []*Service { return s.svcs }
func (s *verifSnapSD) GetService(h host.Name) *Service {
	for _, x := range s.svcs {
		if x.Hostname == h {
			return x
		}
	}
	return nil
}

// the merged VirtualService collection (krt) is replaced by a view of the store: no delegates, default exportTo
type verifVSCollection struct {
	krt.Collection[MergedVirtualService] // nil: only List is used
	store                                *VerifStore
}

func (c verifVSCollection) List() []MergedVirtualService {
	var out []MergedVirtualService
	for i := range c.store.Configs[gvk.VirtualService] {
		out = append(out, MergedVirtualService{Config: &c.store.Configs[gvk.VirtualService][i]})
	}
	return out
}

func verifSnapSvc(name, ns string, i int) *Service {
	return &Service{
		Hostname:     host.Name(name + "." + ns + ".svc.cluster.local"),
		CreationTime: time.Unix(int64(1000+i), 0),
		Ports:        PortList{{Name: "http", Port: 80, Protocol: protocol.HTTP}},
		Attributes:   ServiceAttributes{Name: name, Namespace: ns, ServiceRegistry: "Kubernetes"},
	}
}

func verifMeta(k config.GroupVersionKind, name, ns string, i int) config.Meta {
	return config.Meta{GroupVersionKind: k, Name: name, Namespace: ns, CreationTimestamp: time.Unix(int64(2000+i), 0)}
}

// the marker of each object is the scalar an observable exposes
type verifSnapWorld struct {
	sd    *verifSnapSD
	store *VerifStore
	env   *Environment
	first map[config.GroupVersionKind]config.Meta // the object of each kind the world starts with
}

func verifPAMode(m int32) *securityBeta.PeerAuthentication {
	return &securityBeta.PeerAuthentication{Mtls: &securityBeta.PeerAuthentication_MutualTLS{Mode: securityBeta.PeerAuthentication_MutualTLS_Mode(m)}}
}

func verifPASel(m int32) *securityBeta.PeerAuthentication {
	pa := verifPAMode(m)
	pa.Selector = &typeBeta.WorkloadSelector{MatchLabels: map[string]string{"app": "b"}}
	return pa
}

func verifDR(hostName string, mode networking.ClientTLSSettings_TLSmode) *networking.DestinationRule {
	return &networking.DestinationRule{Host: hostName, TrafficPolicy: &networking.TrafficPolicy{Tls: &networking.ClientTLSSettings{Mode: mode}}}
}

func verifVS(hostName, dest string) *networking.VirtualService {
	return &networking.VirtualService{Hosts: []string{hostName}, Gateways: []string{"mesh", "ns1/gw"}, Http: []*networking.HTTPRoute{{
		Route: []*networking.HTTPRouteDestination{{Destination: &networking.Destination{Host: dest}}},
	}}}
}

func verifSidecar(hosts ...string) *networking.Sidecar {
	return &networking.Sidecar{Egress: []*networking.IstioEgressListener{{Hosts: hosts}}}
}

func verifGW(port uint32) *networking.Gateway {
	return &networking.Gateway{Selector: map[string]string{"istio": "gw"}, Servers: []*networking.Server{{
		Port: &networking.Port{Number: port, Name: "http", Protocol: "HTTP"}, Hosts: []string{"*"},
	}}}
}

func verifAuthz(action securityBeta.AuthorizationPolicy_Action) *securityBeta.AuthorizationPolicy {
	return &securityBeta.AuthorizationPolicy{Action: action, Rules: []*securityBeta.Rule{{}}}
}

func verifEF(applyTo networking.EnvoyFilter_ApplyTo) *networking.EnvoyFilter {
	return &networking.EnvoyFilter{ConfigPatches: []*networking.EnvoyFilter_EnvoyConfigObjectPatch{{
		ApplyTo: applyTo, Patch: &networking.EnvoyFilter_Patch{Operation: networking.EnvoyFilter_Patch_REMOVE},
	}}}
}

func verifTelemetry(disabled bool) *telemetry.Telemetry {
	return &telemetry.Telemetry{AccessLogging: []*telemetry.AccessLogging{{Providers: []*telemetry.ProviderRef{{Name: "otel"}}, Disabled: wrapperspb.Bool(disabled)}}}
}

func verifRA(issuer string) *securityBeta.RequestAuthentication {
	return &securityBeta.RequestAuthentication{JwtRules: []*securityBeta.JWTRule{{Issuer: issuer}}}
}

func verifPC(conc int32) *networkingBeta.ProxyConfig {
	return &networkingBeta.ProxyConfig{Concurrency: wrapperspb.Int32(conc)}
}

func verifTE(prio int32) *extensions.TrafficExtension {
	return &extensions.TrafficExtension{Priority: wrapperspb.Int32(prio)}
}

var verifSnapKinds = []config.GroupVersionKind{
	gvk.PeerAuthentication, gvk.DestinationRule, gvk.VirtualService, gvk.Sidecar, gvk.Gateway, gvk.AuthorizationPolicy,
	gvk.EnvoyFilter, gvk.Telemetry, gvk.RequestAuthentication, gvk.ProxyConfig, gvk.ServiceEntry,
}

func verifSnapWorldNew(paMode int32) *verifSnapWorld {
	w := &verifSnapWorld{}
	w.sd = &verifSnapSD{svcs: []*Service{verifSnapSvc("a", "ns1", 0), verifSnapSvc("b", "ns2", 1)}}
	w.store = &VerifStore{Configs: map[config.GroupVersionKind][]config.Config{}}
	w.first = map[config.GroupVersionKind]config.Meta{}
	add := func(k config.GroupVersionKind, name, ns string, spec config.Spec) {
		w.first[k] = verifMeta(k, name, ns, 0)
		w.store.Configs[k] = append(w.store.Configs[k], config.Config{Meta: w.first[k], Spec: spec})
	}
	add(gvk.PeerAuthentication, "default", "ns2", verifPAMode(paMode))
	// a workload-level policy in the namespace the sidecar only imports services from
	w.store.Configs[gvk.PeerAuthentication] = append(w.store.Configs[gvk.PeerAuthentication],
		config.Config{Meta: verifMeta(gvk.PeerAuthentication, "sel", "ns2", 3), Spec: verifPASel(paMode)})
	add(gvk.DestinationRule, "dr", "ns1", verifDR("b.ns2.svc.cluster.local", networking.ClientTLSSettings_ISTIO_MUTUAL))
	add(gvk.VirtualService, "vs", "ns1", verifVS("b.ns2.svc.cluster.local", "a.ns1.svc.cluster.local"))
	add(gvk.Sidecar, "default", "ns1", verifSidecar("*/*"))
	add(gvk.Gateway, "gw", "ns1", verifGW(80))
	add(gvk.AuthorizationPolicy, "az", "ns1", verifAuthz(securityBeta.AuthorizationPolicy_ALLOW))
	add(gvk.EnvoyFilter, "ef", "ns1", verifEF(networking.EnvoyFilter_LISTENER))
	add(gvk.Telemetry, "tm", "ns1", verifTelemetry(false))
	add(gvk.RequestAuthentication, "ra", "ns1", verifRA("i1"))
	add(gvk.ProxyConfig, "pc", "ns1", verifPC(1))
	w.env = &Environment{ServiceDiscovery: w.sd, ConfigStore: w.store, Watcher: VerifWatcher{M: &meshconfig.MeshConfig{RootNamespace: "istio-system",
		// an access-log provider whose backend is service b, written in the <namespace>/<hostname> form
		ExtensionProviders: []*meshconfig.MeshConfig_ExtensionProvider{{Name: "otel", Provider: &meshconfig.MeshConfig_ExtensionProvider_EnvoyOtelAls{
			EnvoyOtelAls: &meshconfig.MeshConfig_ExtensionProvider_EnvoyOpenTelemetryLogProvider{Service: "ns2/b.ns2.svc.cluster.local", Port: 80}}}}}},
		EndpointIndex: NewEndpointIndex(DisabledCache{}), AmbientIndexes: &NoopAmbientIndexes{}}
	w.env.VirtualServiceController = &VirtualServiceController{outputs: Outputs{MergedVirtualServices: verifVSCollection{store: w.store}}}
	w.env.Init()
	return w
}

// mutate applies change (k, op) to the world and returns the ConfigsUpdated entry the config controller would report.
// op 0: update the marker of the existing object, 1: delete it, 2: add a second object of the kind.
func (w *verifSnapWorld) mutate(k config.GroupVersionKind, op int, paMode int32) ConfigKey {
	if k == gvk.ServiceEntry {
		// a service change is reported with the hostname as name
		find := func(name string) int {
			for i, s := range w.sd.svcs {
				if s.Attributes.Name == name {
					return i
				}
			}
			return -1
		}
		switch op {
		case 0: // update b (or bring it back)
			nb := verifSnapSvc("b", "ns2", 1)
			if i := find("b"); i >= 0 {
				if w.sd.svcs[i].Ports[0].Port == 80 {
					nb.Ports = PortList{{Name: "http", Port: 8080, Protocol: protocol.HTTP}}
				}
				w.sd.svcs[i] = nb
			} else {
				w.sd.svcs = append(w.sd.svcs, nb)
			}
		case 1: // delete b
			if i := find("b"); i >= 0 {
				w.sd.svcs = append(append([]*Service{}, w.sd.svcs[:i]...), w.sd.svcs[i+1:]...)
			}
		default: // add (or remove) c
			if i := find("c"); i >= 0 {
				w.sd.svcs = append(append([]*Service{}, w.sd.svcs[:i]...), w.sd.svcs[i+1:]...)
			} else {
				w.sd.svcs = append(w.sd.svcs, verifSnapSvc("c", "ns2", 2))
			}
			return ConfigKey{Kind: kind.ServiceEntry, Name: "c.ns2.svc.cluster.local", Namespace: "ns2"}
		}
		return ConfigKey{Kind: kind.ServiceEntry, Name: "b.ns2.svc.cluster.local", Namespace: "ns2"}
	}
	if k == gvk.PeerAuthentication && op == 3 {
		// the workload-level policy of ns2 is updated (or deleted when the drawn mode is UNSET)
		var l []config.Config
		for _, c := range w.store.Configs[k] {
			if c.Name != "sel" {
				l = append(l, c)
			}
		}
		if paMode != 0 {
			l = append(l, config.Config{Meta: verifMeta(k, "sel", "ns2", 3), Spec: verifPASel(paMode)})
		}
		w.store.Configs[k] = l
		return ConfigKey{Kind: kind.PeerAuthentication, Name: "sel", Namespace: "ns2"}
	}
	first := w.first[k]
	var spec config.Spec
	second := "ns1"
	switch k {
	case gvk.PeerAuthentication:
		spec = verifPAMode(paMode)
		second = "istio-system"
	case gvk.DestinationRule:
		spec = verifDR("b.ns2.svc.cluster.local", networking.ClientTLSSettings_DISABLE)
	case gvk.VirtualService:
		spec = verifVS("b.ns2.svc.cluster.local", "b.ns2.svc.cluster.local")
	case gvk.Sidecar:
		spec = verifSidecar("./*")
	case gvk.Gateway:
		spec = verifGW(8080)
	case gvk.AuthorizationPolicy:
		spec = verifAuthz(securityBeta.AuthorizationPolicy_DENY)
	case gvk.EnvoyFilter:
		spec = verifEF(networking.EnvoyFilter_CLUSTER)
	case gvk.Telemetry:
		spec = verifTelemetry(true)
	case gvk.RequestAuthentication:
		spec = verifRA("i2")
	case gvk.ProxyConfig:
		spec = verifPC(2)
	}
	kk := kind.FromString(k.Kind)
	idx := func(name string) int {
		for i, c := range w.store.Configs[k] {
			if c.Name == name {
				return i
			}
		}
		return -1
	}
	without := func(i int) []config.Config {
		l := w.store.Configs[k]
		return append(append([]config.Config{}, l[:i]...), l[i+1:]...)
	}
	switch op {
	case 0: // update the first object (or create it again with the new content)
		if i := idx(first.Name); i >= 0 {
			l := append([]config.Config{}, w.store.Configs[k]...)
			l[i] = config.Config{Meta: first, Spec: spec}
			w.store.Configs[k] = l
		} else {
			w.store.Configs[k] = append(append([]config.Config{}, w.store.Configs[k]...), config.Config{Meta: first, Spec: spec})
		}
		return ConfigKey{Kind: kk, Name: first.Name, Namespace: first.Namespace}
	case 1: // delete the first object
		if i := idx(first.Name); i >= 0 {
			w.store.Configs[k] = without(i)
		}
		return ConfigKey{Kind: kk, Name: first.Name, Namespace: first.Namespace}
	}
	// add a second object (or delete it again)
	if i := idx("second"); i >= 0 {
		w.store.Configs[k] = without(i)
		return ConfigKey{Kind: kk, Name: "second", Namespace: second}
	}
	if k == gvk.Sidecar {
		// a second Sidecar in a namespace needs a selector
		s := verifSidecar("./*")
		s.WorkloadSelector = &networking.WorkloadSelector{Labels: map[string]string{"app": "a"}}
		spec = s
	}
	if k == gvk.DestinationRule {
		spec = verifDR("a.ns1.svc.cluster.local", networking.ClientTLSSettings_SIMPLE)
	}
	w.store.Configs[k] = append(append([]config.Config{}, w.store.Configs[k]...), config.Config{Meta: verifMeta(k, "second", second, 7), Spec: spec})
	return ConfigKey{Kind: kk, Name: "second", Namespace: second}
}

func verifSnapProxy(t NodeType, ns string, lbls map[string]string) *Proxy {
	return &Proxy{Type: t, ConfigNamespace: ns, IPAddresses: []string{"10.0.0.1"}, Labels: lbls,
		Metadata: &NodeMetadata{Namespace: ns, Labels: lbls}, IstioVersion: MaxIstioVersion}
}

// observation: scalars a generator would read from the snapshot for a sidecar in ns1 and a gateway in ns1
type verifSnapObs struct {
	vals []int64
	tags []string
}

func (o *verifSnapObs) add(tag string, v int64) { o.tags = append(o.tags, tag); o.vals = append(o.vals, v) }
func (o *verifSnapObs) str(tag string, s string) {
	// strings are concrete here; fold to a number
	var h int64
	for i := 0; i < len(s); i++ {
		h = h*131 + int64(s[i])
	}
	o.add(tag, h)
}

func verifObserveSnapshot(ps *PushContext) *verifSnapObs {
	o := &verifSnapObs{}
	sidecar := verifSnapProxy(SidecarProxy, "ns1", map[string]string{"app": "a"})
	sidecar.SetSidecarScope(ps)
	sc := sidecar.SidecarScope
	svcA, svcB := ps.ServiceForHostname(sidecar, "a.ns1.svc.cluster.local"), ps.ServiceForHostname(sidecar, "b.ns2.svc.cluster.local")
	o.add("scope.services", int64(len(sc.Services())))
	for _, s := range sc.Services() {
		o.str("scope.service", string(s.Hostname))
		o.add("scope.service.port", int64(s.Ports[0].Port))
	}
	// server side and client side view of the namespace mTLS mode
	for _, ns := range []string{"ns1", "ns2"} {
		o.add("push.authn.mode."+ns, int64(ps.AuthnPolicies.GetNamespaceMutualTLSMode(ns)))
		if sc.AuthnPolicies != nil {
			o.add("scope.authn.mode."+ns, int64(sc.AuthnPolicies.GetNamespaceMutualTLSMode(ns)))
		} else {
			o.add("scope.authn.mode."+ns, -1)
		}
	}
	if sc.AuthnPolicies != nil {
		for _, c := range sc.AuthnPolicies.GetPeerAuthenticationsForWorkload(WorkloadPolicyMatcher{WorkloadNamespace: "ns2", WorkloadLabels: map[string]string{"app": "b"}}) {
			o.str("scope.authn.workload-policy", c.Name)
			o.add("scope.authn.workload-policy.mode", int64(c.Spec.(*securityBeta.PeerAuthentication).GetMtls().GetMode()))
		}
	}
	o.add("push.authn.global", int64(ps.AuthnPolicies.GetGlobalMutualTLSMode()))
	if sc.AuthnPolicies != nil {
		o.add("scope.authn.global", int64(sc.AuthnPolicies.GetGlobalMutualTLSMode()))
	}
	o.add("push.jwt", int64(len(ps.AuthnPolicies.GetJwtPoliciesForWorkload(WorkloadPolicyMatcher{WorkloadNamespace: "ns1", WorkloadLabels: sidecar.Labels}))))
	for _, c := range ps.AuthnPolicies.GetJwtPoliciesForWorkload(WorkloadPolicyMatcher{WorkloadNamespace: "ns1", WorkloadLabels: sidecar.Labels}) {
		o.str("push.jwt.issuer", c.Spec.(*securityBeta.RequestAuthentication).JwtRules[0].Issuer)
	}
	// destination rules as the cluster builder reads them
	for _, svc := range []*Service{svcA, svcB} {
		if svc == nil {
			o.add("svc.missing", 1)
			continue
		}
		dr := sc.DestinationRule(TrafficDirectionOutbound, sidecar, svc.Hostname)
		if dr == nil {
			o.add("scope.dr", -1)
		} else {
			o.add("scope.dr", int64(dr.GetRule().Spec.(*networking.DestinationRule).TrafficPolicy.Tls.Mode))
		}
		o.add("push.mtls-infer", int64(ps.BestEffortInferServiceMTLSMode(sc.AuthnPolicies, nil, svc, svc.Ports[0])))
	}
	// virtual services as the route builder reads them
	for _, el := range sc.EgressListeners {
		for _, vs := range el.VirtualServices() {
			o.str("scope.vs", vs.Name)
			o.str("scope.vs.dest", vs.Spec.(*networking.VirtualService).Http[0].Route[0].Destination.Host)
		}
	}
	for _, vs := range ps.VirtualServicesForGateway("ns1", "ns1/gw") {
		o.str("gw.vs", vs.Name)
		o.str("gw.vs.dest", vs.Spec.(*networking.VirtualService).Http[0].Route[0].Destination.Host)
	}
	// authorization
	az := ps.AuthzPolicies.ListAuthorizationPolicies(WorkloadPolicyMatcher{WorkloadNamespace: "ns1", WorkloadLabels: sidecar.Labels})
	o.add("authz.allow", int64(len(az.Allow)))
	o.add("authz.deny", int64(len(az.Deny)))
	// envoy filters
	if ef := ps.EnvoyFilters(sidecar); ef != nil {
		for _, at := range []networking.EnvoyFilter_ApplyTo{networking.EnvoyFilter_LISTENER, networking.EnvoyFilter_CLUSTER} {
			o.add("ef.patches", int64(len(ef.Patches[at])))
			for _, p := range ef.Patches[at] {
				o.str("ef.patch", p.Name)
			}
		}
	} else {
		o.add("ef.none", 1)
	}
	// telemetry and proxy config
	al := ps.Telemetry.AccessLogging(ps, sidecar, pilotnetworking.ListenerClassSidecarOutbound, nil)
	o.add("telemetry.accesslog", int64(len(al)))
	for _, l := range al {
		o.str("telemetry.accesslog.provider", l.Provider.Name)
		o.add("telemetry.accesslog.disabled", vp.IteInt64(l.Disabled, 1, 0))
	}
	// (EffectiveProxyConfig merges through YAML; the namespace-level source of the merge is read instead)
	if pc := ps.ProxyConfigs.mergedNamespaceConfig("ns1"); pc != nil && pc.Concurrency != nil {
		o.add("proxyconfig.concurrency", int64(pc.Concurrency.Value))
	} else {
		o.add("proxyconfig.concurrency", -1)
	}
	// gateway
	gw := verifSnapProxy(Router, "ns1", map[string]string{"istio": "gw"})
	gw.SetGatewaysForProxy(ps)
	if gw.MergedGateway != nil {
		for _, s := range gw.MergedGateway.MergedServers {
			for _, srv := range s.Servers {
				o.add("gw.server.port", int64(srv.Port.Number))
			}
		}
	} else {
		o.add("gw.none", 1)
	}
	return o
}

func verifCompareSnapshots(inc, fresh *verifSnapObs) {
	vp.Assert(len(inc.vals) == len(fresh.vals), "incremental-snapshot-observes-what-a-fresh-snapshot-observes/shape")
	for i := range fresh.vals {
		if i < len(inc.vals) {
			vp.Assert(inc.tags[i] == fresh.tags[i], "incremental-snapshot-observes-what-a-fresh-snapshot-observes/shape")
			vp.Assert(inc.vals[i] == fresh.vals[i], "incremental-snapshot-observes-what-a-fresh-snapshot-observes/"+fresh.tags[i])
		}
	}
}

func verifSnapStep(w *verifSnapWorld, old *PushContext, name string) (*PushContext, *PushContext, ConfigKey) {
	k := verifSnapKinds[vp.Choice(name+".kind", len(verifSnapKinds))]
	nOps := 3
	if k == gvk.PeerAuthentication {
		nOps = 4
	}
	op := vp.Choice(name+".op", nOps)
	mode := vp.Int32(name + ".paMode")
	vp.Assume(vp.And(mode >= 0, mode <= 3))
	key := w.mutate(k, op, mode)
	inc := NewPushContext()
	inc.InitContext(w.env, old, &PushRequest{ConfigsUpdated: sets.New(key), Reason: NewReasonStats(ConfigUpdate)})
	fresh := NewPushContext()
	fresh.InitContext(w.env, nil, nil)
	return inc, fresh, key
}

// One changed object of any kind: the incremental snapshot and a fresh snapshot give the same answers.
func VerifC01IncrementalSnapshot() {
	m0 := vp.Int32("paMode0")
	vp.Assume(vp.And(m0 >= 0, m0 <= 3))
	w := verifSnapWorldNew(m0)
	ps0 := NewPushContext()
	ps0.InitContext(w.env, nil, nil)
	// a proxy connected under the old snapshot computed (and cached) its default scopes there
	before, psBefore := verifObserveSnapshot(ps0), ps0
	inc, fresh, key := verifSnapStep(w, ps0, "step1")
	vp.Reach("updated")
	if vp.Tier() > 0 {
		before, psBefore = verifObserveSnapshot(fresh), fresh
		inc, fresh, key = verifSnapStep(w, inc, "step2")
	}
	after := verifObserveSnapshot(fresh)
	verifCompareSnapshots(verifObserveSnapshot(inc), after)
	verifReadSetClosed(psBefore, fresh, before, after, key)
}

// K8: the sidecar scope's recorded dependencies are closed under what the scope serves: if the change of one object
// changes anything a sidecar reads through its scope, the new or the previous scope depends on that object (that is
// what proxyDependentOnConfig consults; otherwise DefaultProxyNeedsPush filters the change out and the proxy keeps
// the old configuration).
func verifReadSetClosed(psBefore, ps *PushContext, before, after *verifSnapObs, key ConfigKey) {
	scoped := func(o *verifSnapObs) ([]string, []int64) {
		var t []string
		var v []int64
		for i := range o.tags {
			if strings.HasPrefix(o.tags[i], "scope.") {
				t, v = append(t, o.tags[i]), append(v, o.vals[i])
			}
		}
		return t, v
	}
	bt, bv := scoped(before)
	at, av := scoped(after)
	changed := len(bt) != len(at)
	if !changed {
		for i := range bt {
			changed = vp.Or(changed, vp.Or(bt[i] != at[i], bv[i] != av[i]))
		}
	}
	sidecar := verifSnapProxy(SidecarProxy, "ns1", map[string]string{"app": "a"})
	sidecar.SetSidecarScope(ps)
	prev := verifSnapProxy(SidecarProxy, "ns1", map[string]string{"app": "a"})
	prev.SetSidecarScope(psBefore)
	depends := sidecar.SidecarScope.DependsOnConfig(key, ps.Mesh.RootNamespace) || prev.SidecarScope.DependsOnConfig(key, ps.Mesh.RootNamespace)
	vp.Assert(vp.Implies(changed, depends), "sidecar-scope-depends-on-every-object-that-changes-what-it-serves")
}

// Mutant twin: "a snapshot never changes" must be refuted.
func VerifC01SnapshotTwin() {
	m0 := vp.Int32("paMode0")
	vp.Assume(vp.And(m0 >= 0, m0 <= 3))
	w := verifSnapWorldNew(m0)
	ps0 := NewPushContext()
	ps0.InitContext(w.env, nil, nil)
	_, fresh, _ := verifSnapStep(w, ps0, "step1")
	verifCompareSnapshots(verifObserveSnapshot(ps0), verifObserveSnapshot(fresh))
}

var _ = typeBeta.WorkloadSelector{}
