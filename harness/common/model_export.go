package model

// Overlay-only helpers that let harnesses in other packages drive the real,
// unexported construction paths of package model. Never committed to istio/istio.

import (
	"sync"

	"istio.io/istio/pkg/network"
	meshconfig "istio.io/api/mesh/v1alpha1"
	"istio.io/istio/pkg/config"
	"k8s.io/apimachinery/pkg/types"

	"istio.io/istio/pkg/config/host"
	"istio.io/istio/pkg/config/mesh"
	"istio.io/istio/pkg/config/mesh/meshwatcher"
	"istio.io/istio/pkg/kube/krt"
	"istio.io/istio/pkg/config/schema/collection"
)

type VerifStore struct {
	Configs map[config.GroupVersionKind][]config.Config
}

func (s *VerifStore) Schemas() collection.Schemas { return collection.Schemas{} }
func (s *VerifStore) Get(typ config.GroupVersionKind, name, namespace string) *config.Config {
	for i := range s.Configs[typ] {
		c := &s.Configs[typ][i]
		if c.Name == name && c.Namespace == namespace {
			return c
		}
	}
	return nil
}

func (s *VerifStore) List(typ config.GroupVersionKind, namespace string) []config.Config {
	var out []config.Config
	for _, c := range s.Configs[typ] {
		if namespace == NamespaceAll || c.Namespace == namespace {
			out = append(out, c)
		}
	}
	return out
}
func (s *VerifStore) Create(config.Config) (string, error)       { return "", nil }
func (s *VerifStore) Update(config.Config) (string, error)       { return "", nil }
func (s *VerifStore) UpdateStatus(config.Config) (string, error) { return "", nil }
func (s *VerifStore) Delete(config.GroupVersionKind, string, string, *string) error {
	return nil
}

type VerifWatcher struct {
	krt.Singleton[meshwatcher.MeshConfigResource] // nil: only Mesh() is used
	M *meshconfig.MeshConfig
}

func (w VerifWatcher) Mesh() *meshconfig.MeshConfig { return w.M }
func (w VerifWatcher) AddMeshHandler(h func()) *mesh.WatcherHandlerRegistration {
	return nil
}
func (w VerifWatcher) DeleteMeshHandler(*mesh.WatcherHandlerRegistration) {}

// VerifEnv builds an Environment over a fixed config list and mesh config.
func VerifEnv(m *meshconfig.MeshConfig, store *VerifStore) *Environment {
	return &Environment{ConfigStore: store, Watcher: VerifWatcher{M: m}}
}

// VerifInitAuthenticationPolicies runs the real snapshot construction for authentication policies.
func VerifInitAuthenticationPolicies(env *Environment) *AuthenticationPolicies {
	return initAuthenticationPolicies(env)
}

// VerifConsolidatedDR builds a consolidated DestinationRule that was merged from the given rules.
func VerifConsolidatedDR(rule *config.Config, from ...types.NamespacedName) *ConsolidatedDestRule {
	return &ConsolidatedDestRule{rule: rule, from: from}
}

// VerifScopeWithDRs builds a SidecarScope whose destination-rule index holds the given rules for host h.
func VerifScopeWithDRs(namespace string, h host.Name, drs ...*ConsolidatedDestRule) *SidecarScope {
	return &SidecarScope{Namespace: namespace, destinationRules: map[host.Name][]*ConsolidatedDestRule{h: drs}}
}

// VerifSD is a ServiceDiscovery over a fixed service list (only Services/GetService are implemented).
type VerifSD struct {
	ServiceDiscovery
	Svcs []*Service
}

func (s *VerifSD) Services() []*Service { return s.Svcs }
func (s *VerifSD) GetService(h host.Name) *Service {
	for _, x := range s.Svcs {
		if x.Hostname == h {
			return x
		}
	}
	return nil
}

// verifMergedVS stands for the krt collection of merged VirtualServices: a view of the store (no delegates, default exportTo).
type verifMergedVS struct {
	krt.Collection[MergedVirtualService]
	store *VerifStore
}

func (c verifMergedVS) List() []MergedVirtualService {
	var out []MergedVirtualService
	for _, l := range c.store.Configs {
		for i := range l {
			if l[i].GroupVersionKind.Kind == "VirtualService" {
				out = append(out, MergedVirtualService{Config: &l[i]})
			}
		}
	}
	return out
}

// VerifWorld builds an initialised Environment over fixed services and configs.
func VerifWorld(m *meshconfig.MeshConfig, svcs []*Service, store *VerifStore) *Environment {
	env := &Environment{ServiceDiscovery: &VerifSD{Svcs: svcs}, ConfigStore: store, Watcher: VerifWatcher{M: m},
		EndpointIndex: NewEndpointIndex(DisabledCache{}), AmbientIndexes: &NoopAmbientIndexes{}}
	env.VirtualServiceController = &VirtualServiceController{outputs: Outputs{MergedVirtualServices: verifMergedVS{store: store}}}
	env.Init()
	return env
}

// VerifSingleNetwork gives the push context a network manager without any network gateway (single-network mesh).
func VerifSingleNetwork(ps *PushContext) {
	ps.ambientIndex = &NoopAmbientIndexes{}
	mu := &sync.RWMutex{}
	ps.networkMgr = &NetworkManager{
		NetworkGateways: &NetworkGateways{mu: mu, byNetwork: map[network.ID][]NetworkGateway{}, byNetworkAndCluster: map[networkAndCluster][]NetworkGateway{}},
		Unresolved:      &NetworkGateways{mu: mu, byNetwork: map[network.ID][]NetworkGateway{}, byNetworkAndCluster: map[networkAndCluster][]NetworkGateway{}},
	}
}
