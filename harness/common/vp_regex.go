package zzvp

import "regexp"

func regexFullMatchNative(pattern, s string) bool {
	re, err := regexp.Compile("^(?:" + pattern + ")$")
	if err != nil {
		return false
	}
	return re.MatchString(s)
}
