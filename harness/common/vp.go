// Package zzvp holds the harness primitives of the /verif solver-based checks.
//
// The bodies below are the NATIVE REPLAY implementation: values come from the
// JSON file named by $VERIF_REPLAY (a solver model written by gosym). When a
// harness is executed symbolically by gosym every function of this package is
// intercepted by name and these bodies are never interpreted.
//
// This file is never committed to istio/istio: it is injected with -overlay.
package zzvp

import (
	"encoding/json"
	"fmt"
	"math"
	"os"
	"runtime"
	"strconv"
	"sync"
	"testing"
	"strings"
	"time"
)

type replayFile struct {
	Threads bool                              `json:"threads"`
	Harness string                            `json:"harness"`
	Label   string                            `json:"label"`
	Kind    string                            `json:"kind"`
	Detail  string                            `json:"detail"`
	Inputs  map[string]map[string]interface{} `json:"inputs"`
}

var cur *replayFile

type assertFailed struct{ label string }
type assumeFailed struct{}

func load() *replayFile {
	if cur != nil {
		return cur
	}
	cur = &replayFile{Inputs: map[string]map[string]interface{}{}}
	if p := os.Getenv("VERIF_REPLAY"); p != "" {
		b, err := os.ReadFile(p)
		if err != nil {
			panic(err)
		}
		if err := json.Unmarshal(b, cur); err != nil {
			panic(err)
		}
	}
	return cur
}

func raw(name string) (interface{}, bool) {
	in, ok := load().Inputs[name]
	if !ok {
		return nil, false
	}
	v, ok := in["v"]
	return v, ok
}

func i64(name string) int64 {
	v, ok := raw(name)
	if !ok {
		return 0
	}
	switch x := v.(type) {
	case string:
		if n, err := strconv.ParseInt(x, 10, 64); err == nil {
			return n
		}
		if n, err := strconv.ParseUint(x, 10, 64); err == nil {
			return int64(n)
		}
	case float64:
		return int64(x)
	}
	return 0
}

func Bool(name string) bool {
	v, ok := raw(name)
	if !ok {
		return false
	}
	b, _ := v.(bool)
	return b
}
func Int(name string) int       { return int(i64(name)) }
func Int64(name string) int64   { return i64(name) }
func Int32(name string) int32   { return int32(i64(name)) }
func Uint64(name string) uint64 { return uint64(i64(name)) }
func Uint32(name string) uint32 { return uint32(i64(name)) }
func Uint16(name string) uint16 { return uint16(i64(name)) }
func Uint8(name string) uint8   { return uint8(i64(name)) }
func Float64(name string) float64 {
	v, ok := raw(name)
	if !ok {
		return 0
	}
	if s, ok := v.(string); ok {
		if u, err := strconv.ParseUint(s, 16, 64); err == nil {
			return math.Float64frombits(u)
		}
	}
	return 0
}
func String(name string, maxLen int) string {
	v, ok := raw(name)
	if !ok {
		return ""
	}
	s, _ := v.(string)
	return s
}
func StringIn(name string, maxLen int, alphabet string) string { return String(name, maxLen) }

// Time returns a symbolic instant (nanoseconds since the Unix epoch, 2001..2096).
func Time(name string) time.Time {
	if _, ok := raw(name); !ok {
		return time.Unix(1_700_000_000, 0)
	}
	return time.Unix(0, i64(name))
}

// Choice forks the symbolic execution n ways.
func Choice(name string, n int) int {
	k := int(i64(name))
	if k < 0 || k >= n {
		return 0
	}
	return k
}

func Assume(c bool) {
	if !c {
		panic(assumeFailed{})
	}
}
func Assert(c bool, label string) {
	if !c {
		panic(assertFailed{label})
	}
}
func Unreachable(label string)     { panic(assertFailed{label}) }
func Reach(label string)           {}
func Symbolic() bool               { return false }
// PermuteMaps: natively Go randomises map iteration by itself; a harness that depends on it is retried
var mapsPermuted bool

func PermuteMaps(on bool) { mapsPermuted = mapsPermuted || on }

// Yield marks a point where other goroutines may run; natively it widens race windows.
func Yield() { time.Sleep(time.Duration(200+yieldJitter()) * time.Microsecond) }

// Jitter is inserted (by overlay, for native confirmation of schedule-dependent counterexamples only)
// before mutex operations of the package under test: it widens race windows at random.
func Jitter() {
	j := yieldJitter()
	switch {
	case j%8 == 0:
		time.Sleep(time.Duration(50+j) * time.Microsecond)
	case j%2 == 0:
		runtime.Gosched()
	}
}

var yieldSeq uint64

var yieldMu sync.Mutex

func yieldJitter() int {
	yieldMu.Lock()
	defer yieldMu.Unlock()
	yieldSeq = yieldSeq*6364136223846793005 + 1442695040888963407
	return int(yieldSeq>>33) % 800
}

// Quiesce waits until the other goroutines have nothing left to do (natively: a generous sleep)
func Quiesce() { time.Sleep(150 * time.Millisecond) }
func FireTimer() bool              { return false }
func ArmedTimers() int             { return 0 }
func And(a, b bool) bool           { return a && b }
func And3(a, b, c bool) bool       { return a && b && c }
func Or(a, b bool) bool            { return a || b }
func Or3(a, b, c bool) bool        { return a || b || c }
func Not(a bool) bool              { return !a }
func Implies(a, b bool) bool       { return !a || b }
func Iff(a, b bool) bool           { return a == b }
func Observe(name string, x interface{}) {}
func Name(base string, i int) string { return base + strconv.Itoa(i) }

func IteString(c bool, a, b string) string {
	if c {
		return a
	}
	return b
}
func IteInt(c bool, a, b int) int {
	if c {
		return a
	}
	return b
}
func IteInt64(c bool, a, b int64) int64 {
	if c {
		return a
	}
	return b
}
func IteBool(c bool, a, b bool) bool {
	if c {
		return a
	}
	return b
}

// Tier is 0 for the quick tier and 1 for the thorough tier.
func Tier() int {
	if os.Getenv("VERIF_TIER") == "thorough" {
		return 1
	}
	return 0
}

// RegexFullMatch is the reference matcher used by oracles; natively it is Go's RE2.
func RegexFullMatch(pattern, s string) bool {
	return regexFullMatchNative(pattern, s)
}

// RegexUF is a regular-expression full match that the engine treats as an uninterpreted predicate.
func RegexUF(pattern, s string) bool { return regexFullMatchNative(pattern, s) }

// RunReplay runs the harness named in $VERIF_REPLAY and prints the outcome.
func RunReplay(t *testing.T, harnesses map[string]func()) {
	r := load()
	h, ok := harnesses[r.Harness]
	if !ok {
		t.Skipf("no harness %q here", r.Harness)
		return
	}
	runs := 1
	if r.Threads {
		runs = 300 // schedule-dependent counterexample: retry until the interleaving shows up
	}
	// a harness that does not return is a deadlock (the Go runtime cannot report it inside a test binary);
	// when a deadlock is what the engine predicted, a short limit per try is enough to confirm it
	limit := 120 * time.Second
	if strings.Contains(r.Detail, "deadlock") {
		limit = 5 * time.Second
		if runs > 60 {
			runs = 60
		}
	}
	for i := 0; i < runs; i++ {
		resCh := make(chan string, 1)
		go func() { resCh <- runOnce(h) }()
		var res string
		select {
		case res = <-resCh:
		case <-time.After(limit):
			res = fmt.Sprintf("panic deadlock: the harness did not return within %v", limit)
		}
		if i == 0 && mapsPermuted && runs < 300 && !strings.Contains(r.Detail, "deadlock") {
			runs = 300 // map-iteration-order dependent counterexample: retry until the order shows up
		}
		if res != "ok" || i == runs-1 {
			fmt.Println("VERIF-REPLAY-RESULT: " + res)
			return
		}
	}
}

func runOnce(h func()) (res string) {
	defer func() {
		switch p := recover().(type) {
		case nil:
			res = "ok"
		case assertFailed:
			res = "assert-failed label=" + p.label
		case assumeFailed:
			res = "assume-failed (model does not satisfy the harness assumptions natively)"
		default:
			res = fmt.Sprintf("panic %v", p)
		}
	}()
	h()
	return "ok"
}
