package cache

import (
	"errors"
	"time"

	"istio.io/istio/pkg/queue"
	"istio.io/istio/pkg/security"
	vp "istio.io/istio/pkg/zzvp"
)

// ---- replacements (environment): file secrets absent, CA is a counting fake, no disk output

func verifGenerateFileSecret(sc *SecretManagerClient, resourceName string) (bool, *security.SecretItem, error) {
	return false, nil, nil
}

var verifCA struct {
	calls     int
	failFirst bool
	rootFlip  bool
	last      time.Time
}

func verifGenerateNewSecret(sc *SecretManagerClient, resourceName string) (*security.SecretItem, error) {
	verifCA.calls++
	n := verifCA.calls
	vp.Yield() // the CSR round trip is a point where other goroutines run
	if verifCA.failFirst && n == 1 {
		return nil, errors.New("ca unavailable")
	}
	root := []byte("root-A")
	if verifCA.rootFlip && n >= 2 {
		root = []byte("root-B")
	}
	now := time.Now()
	// two certificates are never created at the same nanosecond (distinct signing events)
	vp.Assume(verifCA.last.IsZero() || now.After(verifCA.last))
	verifCA.last = now
	// key and chain are tagged with the signing number so that a mismatched pair is visible
	return &security.SecretItem{
		ResourceName:     resourceName,
		CertificateChain: []byte{'c', byte('0' + n)},
		PrivateKey:       []byte{'k', byte('0' + n)},
		RootCert:         root,
		CreatedTime:      now,
		ExpireTime:       now.Add(24 * time.Hour),
	}, nil
}

func verifOutputKeyCertToDir(dir string, privateKey, certChain, rootCert []byte) error { return nil }

func verifMergeTrustAnchorBytes(sc *SecretManagerClient, caCerts []byte) []byte { return caCerts }

func verifRotateTimeStub(secret security.SecretItem, graceRatio float64, graceRatioJitter float64) time.Duration {
	return time.Hour
}

type verifDelayed struct {
	tasks *[]queue.Task
}

func (d verifDelayed) Push(task queue.Task)                              { *d.tasks = append(*d.tasks, task) }
func (d verifDelayed) PushDelayed(task queue.Task, delay time.Duration) { *d.tasks = append(*d.tasks, task) }
func (d verifDelayed) Run(<-chan struct{})                               {}
func (d verifDelayed) Closed() <-chan struct{}                           { return nil }

func verifNewClient(tasks *[]queue.Task, notified *[]string) *SecretManagerClient {
	sc := &SecretManagerClient{
		configOptions: &security.Options{},
		queue:         verifDelayed{tasks: tasks},
	}
	sc.secretHandler = func(name string) { *notified = append(*notified, name) }
	return sc
}

type verifResult struct {
	item *security.SecretItem
	err  error
	done bool
}

// K2: concurrent GenerateSecret calls cause at most one signing request and everyone gets the same matching pair;
// exactly one rotation is scheduled; a failed attempt is not sticky.
func VerifC18SingleFlight() {
	rotateTime = verifRotateTimeStub
	verifCA.last = time.Time{}
	verifCA.calls, verifCA.failFirst, verifCA.rootFlip = 0, vp.Choice("caFailsFirst", 2) == 1, false
	var tasks []queue.Task
	var notified []string
	sc := verifNewClient(&tasks, &notified)
	n := 2
	res := make([]verifResult, n)
	doneCh := make(chan int, n)
	for i := 0; i < n; i++ {
		i := i
		go func() {
			it, err := sc.GenerateSecret(security.WorkloadKeyCertResourceName)
			res[i] = verifResult{item: it, err: err, done: true}
			doneCh <- i
		}()
	}
	for i := 0; i < n; i++ {
		<-doneCh
	}
	vp.Reach("all-returned")
	ok := 0
	for i := range res {
		vp.Assert(res[i].done, "every-caller-returns")
		if res[i].err == nil {
			ok++
			it := res[i].item
			vp.Assert(it != nil && len(it.CertificateChain) == 2 && len(it.PrivateKey) == 2, "answer-has-key-and-chain")
			vp.Assert(it.CertificateChain[1] == it.PrivateKey[1], "key-and-chain-belong-together")
		}
	}
	if !verifCA.failFirst {
		vp.Assert(verifCA.calls == 1, "at-most-one-signing-request")
		vp.Assert(ok == n, "all-callers-served")
		vp.Assert(res[0].item.CertificateChain[1] == res[1].item.CertificateChain[1], "all-callers-get-the-same-pair")
		vp.Assert(len(tasks) == 1, "exactly-one-rotation-scheduled")
	} else {
		// the first attempt failed: it must not be sticky - some later attempt signs again
		vp.Assert(verifCA.calls == 2, "failed-signing-is-retried-by-the-next-caller")
		vp.Assert(ok == 1, "second-caller-served-after-failure")
		vp.Assert(len(tasks) == 1, "exactly-one-rotation-scheduled")
	}
	// the cached item is the one that was handed out
	c := sc.cache.GetWorkload()
	vp.Assert(c != nil, "successful-signing-is-cached")
}

// K3 + K4: the rotation task clears the cache and notifies exactly once, does nothing for a superseded
// certificate, and a changed root is announced.
func VerifC18RotationTask() {
	rotateTime = verifRotateTimeStub
	verifCA.last = time.Time{}
	verifCA.calls, verifCA.failFirst, verifCA.rootFlip = 0, false, vp.Choice("rootChangesOnRenewal", 2) == 1
	var tasks []queue.Task
	var notified []string
	sc := verifNewClient(&tasks, &notified)
	first, err := sc.GenerateSecret(security.WorkloadKeyCertResourceName)
	vp.Assert(err == nil && first != nil, "first-signing-succeeds")
	vp.Assert(len(tasks) == 1, "one-rotation-per-certificate")
	rootNotesAfterFirst := 0
	for _, n := range notified {
		if n == security.RootCertReqResourceName {
			rootNotesAfterFirst++
		}
	}
	vp.Assert(rootNotesAfterFirst == 1, "first-root-is-announced-once")
	// fire the rotation: the cache is cleared and the workload resource is announced
	before := len(notified)
	tasks[0]()
	vp.Assert(sc.cache.GetWorkload() == nil, "rotation-clears-the-cache")
	vp.Assert(len(notified) == before+1 && notified[before] == security.WorkloadKeyCertResourceName, "rotation-notifies-subscribers-once")
	// firing the same task again is a no-op
	tasks[0]()
	vp.Assert(len(notified) == before+1, "second-firing-is-a-no-op")
	// renewal
	second, err := sc.GenerateSecret(security.WorkloadKeyCertResourceName)
	vp.Reach("renewed")
	vp.Assert(err == nil && second.CertificateChain[1] != first.CertificateChain[1], "renewal-signs-a-new-certificate")
	vp.Assert(len(tasks) == 2, "renewed-certificate-schedules-its-own-rotation")
	rootNotes := 0
	for _, n := range notified[before+1:] {
		if n == security.RootCertReqResourceName {
			rootNotes++
		}
	}
	if verifCA.rootFlip {
		vp.Assert(rootNotes == 1, "changed-root-is-announced-exactly-once")
	} else {
		vp.Assert(rootNotes == 0, "unchanged-root-is-not-announced")
	}
	// the stale task of the first certificate must not clear the renewed one
	tasks[0]()
	vp.Assert(sc.cache.GetWorkload() != nil, "stale-rotation-task-does-nothing")
	tasks[1]()
	vp.Assert(sc.cache.GetWorkload() == nil, "current-rotation-task-clears")
}

// K5: every answer carries the trust bundle of the CA's current root, whichever resource is asked first, whichever
// request triggers a signing, and however the root changes between signings.
func VerifC18TrustBundle() {
	rotateTime = verifRotateTimeStub
	verifCA.last = time.Time{}
	verifCA.calls, verifCA.failFirst, verifCA.rootFlip = 0, false, vp.Choice("rootChangesOnRenewal", 2) == 1
	var tasks []queue.Task
	var notified []string
	sc := verifNewClient(&tasks, &notified)
	currentRoot := func() string {
		// the root delivered with the latest signing (verifGenerateNewSecret)
		if verifCA.rootFlip && verifCA.calls >= 2 {
			return "root-B"
		}
		return "root-A"
	}
	steps := 4 + vp.Tier()
	for t := 0; t < steps; t++ {
		p := vp.Name("step", t)
		switch vp.Choice(p+".op", 3) {
		case 0, 1:
			name := []string{security.WorkloadKeyCertResourceName, security.RootCertReqResourceName}[vp.Choice(p+".resource", 2)]
			item, err := sc.GenerateSecret(name)
			vp.Assert(err == nil && item != nil, "request-is-answered")
			vp.Reach("answered")
			if name == security.RootCertReqResourceName {
				// the trust bundle travels in the ROOTCA resource (a cached workload answer carries key and chain only)
				vp.Assert(string(item.RootCert) == currentRoot(), "rootca-answer-carries-the-current-root")
			}
			if name == security.WorkloadKeyCertResourceName {
				vp.Assert(len(item.CertificateChain) == 2 && len(item.PrivateKey) == 2 && item.CertificateChain[1] == item.PrivateKey[1], "key-matches-chain")
				vp.Assert(int(item.CertificateChain[1]-'0') == verifCA.calls, "workload-answer-is-the-latest-certificate")
			}
		default:
			if len(tasks) > 0 {
				wasCached := sc.cache.GetWorkload() != nil
				before := len(notified)
				tasks[len(tasks)-1]() // the rotation timer of the latest certificate fires
				rotated := wasCached && sc.cache.GetWorkload() == nil
				// a rotation drops the cached workload certificate and tells ITS subscribers (the workload resource,
				// whichever request happened to trigger the signing) to renew, exactly once; a stale timer tells nobody
				if rotated {
					vp.Reach("rotated")
					vp.Assert(len(notified) == before+1, "rotation-announces-exactly-one-renewal")
					if len(notified) == before+1 {
						vp.Assert(notified[before] == security.WorkloadKeyCertResourceName, "rotation-tells-the-workload-certificate-subscribers-to-renew")
					}
				} else {
					vp.Assert(len(notified) == before, "stale-rotation-timer-announces-nothing")
				}
			}
		}
	}
}

// Mutant twin: "two concurrent callers always cause two signings" must be refuted.
func VerifC18FlightTwin() {
	rotateTime = verifRotateTimeStub
	verifCA.last = time.Time{}
	verifCA.calls, verifCA.failFirst, verifCA.rootFlip = 0, false, false
	var tasks []queue.Task
	var notified []string
	sc := verifNewClient(&tasks, &notified)
	doneCh := make(chan int, 2)
	for i := 0; i < 2; i++ {
		go func() {
			sc.GenerateSecret(security.WorkloadKeyCertResourceName)
			doneCh <- 1
		}()
	}
	<-doneCh
	<-doneCh
	vp.Assert(verifCA.calls == 2, "twin")
}
