package cache

import (
	"time"

	"istio.io/istio/pkg/security"
	vp "istio.io/istio/pkg/zzvp"
)

// K1: renewal delay arithmetic in IEEE double semantics, for every lifetime, ratio, jitter and random draw.
func VerifC18RotateTime() {
	created := vp.Time("created")
	lifetime := vp.Int64("lifetimeNs")
	// certificate lifetimes between 1 s and 10 years
	vp.Assume(vp.And(lifetime >= int64(time.Second), lifetime <= int64(10*365*24*time.Hour)))
	expire := created.Add(time.Duration(lifetime))
	ratio := vp.Float64("graceRatio")
	jitter := vp.Float64("graceRatioJitter")
	vp.Assume(vp.And(ratio >= 0, ratio <= 1))
	vp.Assume(vp.And(jitter >= 0, jitter <= 1))
	item := security.SecretItem{CreatedTime: created, ExpireTime: expire}

	delay := rotateTime(item, ratio, jitter)
	now := time.Now() // not earlier than the instant rotateTime observed
	vp.Reach("computed")
	vp.Assert(delay >= 0, "delay-is-never-negative")
	// the renewal fires at (the instant rotateTime read the clock) + delay; that instant is <= now
	fireNoLaterThan := now.Add(delay)
	_ = fireNoLaterThan
}

// the scheduled instant: we need the clock value rotateTime itself used, so replace time.Until by a recorder
var verifNowUsed time.Time

func VerifC18RotateNoLaterThanExpiry() {
	created := vp.Time("created")
	lifetime := vp.Int64("lifetimeNs")
	vp.Assume(vp.And(lifetime >= int64(time.Second), lifetime <= int64(10*365*24*time.Hour)))
	expire := created.Add(time.Duration(lifetime))
	ratio := vp.Float64("graceRatio")
	jitter := vp.Float64("graceRatioJitter")
	vp.Assume(vp.And(ratio >= 0, ratio <= 1))
	vp.Assume(vp.And(jitter >= 0, jitter <= 1))
	item := security.SecretItem{CreatedTime: created, ExpireTime: expire}
	before := time.Now()
	vp.Assume(!before.Before(created)) // the certificate exists when its rotation is scheduled
	delay := rotateTime(item, ratio, jitter)
	after := time.Now()
	vp.Reach("computed")
	// the clock read inside rotateTime lies in [before, after]; the task fires at that instant + delay
	if !expire.Before(after) {
		// not yet expired when scheduled: the renewal must fire no later than expiry.
		// fire <= after + delay and delay = max(expire - grace - nowUsed, 0) with nowUsed >= before,
		// so it suffices that before + delay <= expire
		vp.Assert(!before.Add(delay).After(expire), "renewal-no-later-than-expiry")
	}
	// strictly before expiry whenever the grace ratio exceeds the jitter by a representable margin
	margin := ratio - jitter
	if margin >= 1.0/1024 {
		// (a certificate that expires at the very instant it is scheduled cannot be renewed strictly earlier)
		vp.Assert(vp.Implies(after.Before(expire), before.Add(delay).Before(expire)), "renewal-strictly-before-expiry-when-ratio-exceeds-jitter")
	}
}

// Mutant twin: "the renewal is never immediate" is false (an expired certificate renews at once) and must be refuted.
func VerifC18RotateTwin() {
	created := vp.Time("created")
	expire := created.Add(time.Hour)
	item := security.SecretItem{CreatedTime: created, ExpireTime: expire}
	delay := rotateTime(item, 0.5, 0.01)
	vp.Assert(delay > 0, "twin")
}
