package route

// C06-K3: the RDS cache key (route.Cache.Key): every field that shapes a route configuration changes the key stream,
// and list-valued fields are separated unambiguously (also across neighbouring lists).

import (
	"strings"

	"k8s.io/apimachinery/pkg/types"

	networking "istio.io/api/networking/v1alpha3"
	"istio.io/istio/pilot/pkg/model"
	"istio.io/istio/pkg/config"
	"istio.io/istio/pkg/config/constants"
	"istio.io/istio/pkg/config/host"
	"istio.io/istio/pkg/config/schema/gvk"
	"istio.io/istio/pkg/util/sets"
	"istio.io/istio/pkg/util/hash"
	vp "istio.io/istio/pkg/zzvp"
)

type verifRecorder struct{ s *string }

var verifStream string

func (r verifRecorder) Write(p []byte) int       { *r.s += string(p); return len(p) }
func (r verifRecorder) WriteString(s string) int { *r.s += s; return len(s) }
func (r verifRecorder) Sum() string              { return *r.s }
func (r verifRecorder) Sum64() uint64            { return 0 }
func (r verifRecorder) Reset()                   { *r.s = "" }

func verifHashNew() hash.Hash {
	verifStream = ""
	return verifRecorder{s: &verifStream}
}

func verifName(n string) string {
	s := vp.StringIn(n, 2, "ab~/")
	vp.Assume(vp.And3(s != "", !strings.Contains(s, "~"), !strings.Contains(s, "/")))
	return s
}

func verifKeyOf(c *Cache) string {
	c.Key()
	return verifStream
}

func verifBase() *Cache {
	return &Cache{RouteName: "80", ProxyVersion: "1.20", ClusterID: "c1", DNSDomain: "ns.svc.cluster.local", ListenerPort: 80,
		Services: []*model.Service{{Hostname: "svc", Attributes: model.ServiceAttributes{Namespace: "ns"}}}}
}

func VerifC06RouteKeyFieldSensitivity() {
	a, b := verifBase(), verifBase()
	x, y := verifName("x"), verifName("y")
	vp.Assume(x != y)
	bx, by := vp.Bool("bx"), vp.Bool("by")
	switch vp.Choice("field", 13) {
	case 0:
		a.RouteName, b.RouteName = x, y
	case 1:
		a.ProxyVersion, b.ProxyVersion = x, y
	case 2:
		a.ClusterID, b.ClusterID = x, y
	case 3:
		a.DNSDomain, b.DNSDomain = x, y
	case 4:
		vp.Assume(bx != by)
		a.DNSCapture, b.DNSCapture = bx, by
	case 5:
		vp.Assume(bx != by)
		a.DNSAutoAllocate, b.DNSAutoAllocate = bx, by
	case 6:
		vp.Assume(bx != by)
		a.AllowAny, b.AllowAny = bx, by
	case 7:
		a.Services = []*model.Service{{Hostname: host.Name(x), Attributes: model.ServiceAttributes{Namespace: "ns"}}}
		b.Services = []*model.Service{{Hostname: host.Name(y), Attributes: model.ServiceAttributes{Namespace: "ns"}}}
	case 8:
		a.Services = []*model.Service{{Hostname: "svc", Attributes: model.ServiceAttributes{Namespace: x}}}
		b.Services = []*model.Service{{Hostname: "svc", Attributes: model.ServiceAttributes{Namespace: y}}}
	case 9:
		a.Services[0].Attributes.Aliases = []model.NamespacedHostname{{Hostname: host.Name(x), Namespace: "ns"}}
		b.Services[0].Attributes.Aliases = []model.NamespacedHostname{{Hostname: host.Name(y), Namespace: "ns"}}
	case 10:
		a.VirtualServices = []*config.Config{{Meta: config.Meta{Name: x, Namespace: "ns"}}}
		b.VirtualServices = []*config.Config{{Meta: config.Meta{Name: y, Namespace: "ns"}}}
	case 11:
		a.DestinationRules = []*model.ConsolidatedDestRule{model.VerifConsolidatedDR(nil, types.NamespacedName{Name: x, Namespace: "ns"})}
		b.DestinationRules = []*model.ConsolidatedDestRule{model.VerifConsolidatedDR(nil, types.NamespacedName{Name: y, Namespace: "ns"})}
	case 12:
		a.EnvoyFilterKeys, b.EnvoyFilterKeys = []string{x}, []string{y}
	}
	ka, kb := verifKeyOf(a), verifKeyOf(b)
	vp.Reach("keys")
	vp.Assert(ka != kb, "field-changes-the-route-key")
}

// lists: the same names distributed differently over services / virtual services / destination rules / EnvoyFilter
// keys (or over adjacent elements) must not give the same key
func VerifC06RouteKeyListSeparation() {
	mk := func(p string) *Cache {
		c := verifBase()
		c.Services = nil
		n := vp.Choice(p+".n", 2+vp.Tier()) // quick: 0..1 objects per side, thorough: 0..2
		for i := 0; i < n; i++ {
			name, ns := verifName(vp.Name(p+".name", i)), verifName(vp.Name(p+".ns", i))
			switch vp.Choice(vp.Name(p+".kind", i), 4) {
			case 0:
				c.Services = append(c.Services, &model.Service{Hostname: host.Name(name), Attributes: model.ServiceAttributes{Namespace: ns}})
			case 1:
				c.VirtualServices = append(c.VirtualServices, &config.Config{Meta: config.Meta{Name: name, Namespace: ns}})
			case 2:
				c.DestinationRules = append(c.DestinationRules, model.VerifConsolidatedDR(nil, types.NamespacedName{Name: name, Namespace: ns}))
			default:
				c.EnvoyFilterKeys = append(c.EnvoyFilterKeys, ns+"/"+name)
			}
		}
		return c
	}
	a, b := mk("a"), mk("b")
	same := len(a.Services) == len(b.Services) && len(a.VirtualServices) == len(b.VirtualServices) &&
		len(a.DestinationRules) == len(b.DestinationRules) && len(a.EnvoyFilterKeys) == len(b.EnvoyFilterKeys)
	eq := same
	if same {
		for i := range a.Services {
			eq = vp.And(eq, vp.And(a.Services[i].Hostname == b.Services[i].Hostname, a.Services[i].Attributes.Namespace == b.Services[i].Attributes.Namespace))
		}
		for i := range a.VirtualServices {
			eq = vp.And(eq, vp.And(a.VirtualServices[i].Name == b.VirtualServices[i].Name, a.VirtualServices[i].Namespace == b.VirtualServices[i].Namespace))
		}
		for i := range a.DestinationRules {
			fa, fb := a.DestinationRules[i].GetFrom()[0], b.DestinationRules[i].GetFrom()[0]
			eq = vp.And(eq, vp.And(fa.Name == fb.Name, fa.Namespace == fb.Namespace))
		}
		for i := range a.EnvoyFilterKeys {
			eq = vp.And(eq, a.EnvoyFilterKeys[i] == b.EnvoyFilterKeys[i])
		}
	}
	vp.Assume(vp.Not(eq))
	ka, kb := verifKeyOf(a), verifKeyOf(b)
	vp.Reach("keys")
	vp.Assert(ka != kb, "different-lists-give-different-route-keys")
}

// Mutant twin: "the listener port alone distinguishes two route caches" must be refuted (it is not part of the key;
// the route name carries it).
func VerifC06RouteKeyTwin() {
	a, b := verifBase(), verifBase()
	b.ListenerPort = 8080
	vp.Assert(verifKeyOf(a) != verifKeyOf(b), "twin")
}

// C06-K3b: an entry may be cached only if what is generated from its virtual services does not depend on the requesting
// proxy beyond what the key holds. The proxy's namespace and labels are not part of the key, so whenever Cacheable() says
// yes, two proxies that differ in exactly those must get the same routes from the real translation.
func VerifC06RouteCacheable() {
	b := &networking.HTTPMatchRequest{}
	if vp.Choice("match.sourceLabels", 2) == 1 {
		b.SourceLabels = map[string]string{"app": "x"}
	}
	if vp.Choice("match.sourceNamespace", 2) == 1 {
		b.SourceNamespace = "foo"
	}
	if vp.Choice("match.uri", 2) == 1 {
		b.Uri = &networking.StringMatch{MatchType: &networking.StringMatch_Prefix{Prefix: "/a"}}
	}
	rules := []*networking.HTTPRoute{
		{Name: "rule0", Match: []*networking.HTTPMatchRequest{b}, DirectResponse: &networking.HTTPDirectResponse{Status: 200}},
		{Name: "rule1", DirectResponse: &networking.HTTPDirectResponse{Status: 201}},
	}
	if vp.Choice("matchOnSecondRule", 2) == 1 {
		rules = []*networking.HTTPRoute{
			{Name: "rule0", Match: []*networking.HTTPMatchRequest{{Uri: &networking.StringMatch{MatchType: &networking.StringMatch_Exact{Exact: "/z"}}}},
				DirectResponse: &networking.HTTPDirectResponse{Status: 202}},
			rules[0], rules[1],
		}
	}
	vs := &networking.VirtualService{Hosts: []string{"svc"}, Http: rules}
	cfg := config.Config{Meta: config.Meta{GroupVersionKind: gvk.VirtualService, Name: "vs", Namespace: "ns"}, Spec: vs}
	c := verifBase()
	c.VirtualServices = []*config.Config{&cfg}
	p1 := &model.Proxy{Type: model.SidecarProxy, Labels: map[string]string{"app": "x"}, ConfigNamespace: "foo", Metadata: &model.NodeMetadata{Namespace: "foo"}}
	p2 := &model.Proxy{Type: model.SidecarProxy, Labels: map[string]string{"app": "y"}, ConfigNamespace: "bar", Metadata: &model.NodeMetadata{Namespace: "bar"}}
	r1, e1 := BuildHTTPRoutesForVirtualService(p1, cfg, 80, sets.New(constants.IstioMeshGateway), RouteOptions{})
	r2, e2 := BuildHTTPRoutesForVirtualService(p2, cfg, 80, sets.New(constants.IstioMeshGateway), RouteOptions{})
	vp.Reach("built")
	if !c.Cacheable() {
		return
	}
	vp.Reach("cacheable")
	vp.Assert((e1 == nil) == (e2 == nil), "cacheable-entry-does-not-depend-on-the-proxy-beyond-its-key")
	vp.Assert(len(r1) == len(r2), "cacheable-entry-does-not-depend-on-the-proxy-beyond-its-key")
	for i := range r1 {
		if i < len(r2) {
			vp.Assert(r1[i].Name == r2[i].Name, "cacheable-entry-does-not-depend-on-the-proxy-beyond-its-key")
		}
	}
}
