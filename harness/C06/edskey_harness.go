package endpoints

// C06-K4: the EDS cache key (EndpointBuilder.WriteHash): every primary-key field changes the key stream and the
// DestinationRule from-list is separated unambiguously.

import (
	"strings"

	corev3 "github.com/envoyproxy/go-control-plane/envoy/config/core/v3"
	"k8s.io/apimachinery/pkg/types"

	"istio.io/istio/pilot/pkg/model"
	"istio.io/istio/pkg/cluster"
	"istio.io/istio/pkg/config/host"
	"istio.io/istio/pkg/network"
	"istio.io/istio/pkg/util/hash"
	vp "istio.io/istio/pkg/zzvp"
)

type verifRecorder struct{ s *string }

var verifStream string

func (r verifRecorder) Write(p []byte) int       { *r.s += string(p); return len(p) }
func (r verifRecorder) WriteString(s string) int { *r.s += s; return len(s) }
func (r verifRecorder) Sum() string              { return *r.s }
func (r verifRecorder) Sum64() uint64            { return 0 }
func (r verifRecorder) Reset()                   { *r.s = "" }

func verifHashNew() hash.Hash {
	verifStream = ""
	return verifRecorder{s: &verifStream}
}

func verifName(n string) string {
	s := vp.StringIn(n, 2, "ab~/")
	vp.Assume(vp.And3(s != "", !strings.Contains(s, "~"), !strings.Contains(s, "/")))
	return s
}

func verifKeyOf(b *EndpointBuilder) string {
	b.Key()
	return verifStream
}

func verifBase() *EndpointBuilder {
	return &EndpointBuilder{
		clusterName: "outbound|80||svc", network: "n1", clusterID: "c1", nodeType: model.SidecarProxy,
		locality: &corev3.Locality{Region: "r", Zone: "z"},
		service:  &model.Service{Hostname: "svc", Attributes: model.ServiceAttributes{Namespace: "ns"}},
		proxy:    &model.Proxy{Metadata: &model.NodeMetadata{}, Labels: map[string]string{}},
	}
}

func VerifC06EdsKeyFieldSensitivity() {
	a, b := verifBase(), verifBase()
	x, y := verifName("x"), verifName("y")
	vp.Assume(x != y)
	bx, by := vp.Bool("bx"), vp.Bool("by")
	switch vp.Choice("field", 13) {
	case 0:
		a.clusterName, b.clusterName = x, y
	case 1:
		a.network, b.network = network.ID(x), network.ID(y)
	case 2:
		a.clusterID, b.clusterID = cluster.ID(x), cluster.ID(y)
	case 3:
		a.nodeType, b.nodeType = model.NodeType(x), model.NodeType(y)
	case 4:
		vp.Assume(bx != by)
		a.clusterLocal, b.clusterLocal = bx, by
	case 5:
		vp.Assume(bx != by)
		a.proxy.Metadata.DisableHBONESend, b.proxy.Metadata.DisableHBONESend = model.StringBool(bx), model.StringBool(by)
	case 6:
		a.locality, b.locality = &corev3.Locality{Region: x}, &corev3.Locality{Region: y}
	case 7:
		a.locality, b.locality = &corev3.Locality{Region: "r", Zone: "z", SubZone: x}, &corev3.Locality{Region: "r", Zone: "z", SubZone: y}
	case 8:
		a.failoverPriorityLabels, b.failoverPriorityLabels = []byte(x), []byte(y)
	case 9:
		a.service = &model.Service{Hostname: host.Name(x), Attributes: model.ServiceAttributes{Namespace: "ns"}}
		b.service = &model.Service{Hostname: host.Name(y), Attributes: model.ServiceAttributes{Namespace: "ns"}}
	case 10:
		a.service = &model.Service{Hostname: "svc", Attributes: model.ServiceAttributes{Namespace: x}}
		b.service = &model.Service{Hostname: "svc", Attributes: model.ServiceAttributes{Namespace: y}}
	case 11:
		a.destinationRule = model.VerifConsolidatedDR(nil, types.NamespacedName{Name: x, Namespace: "ns"})
		b.destinationRule = model.VerifConsolidatedDR(nil, types.NamespacedName{Name: y, Namespace: "ns"})
	case 12:
		// a node-local service is keyed by the proxy's node
		a.service.Attributes.NodeLocal, b.service.Attributes.NodeLocal = true, true
		a.proxy.Metadata.NodeName, b.proxy.Metadata.NodeName = x, y
	}
	ka, kb := verifKeyOf(a), verifKeyOf(b)
	vp.Reach("keys")
	vp.Assert(ka != kb, "field-changes-the-eds-key")
}

func VerifC06EdsKeyListSeparation() {
	mk := func(p string) ([]types.NamespacedName, *EndpointBuilder) {
		var l []types.NamespacedName
		n := vp.Choice(p+".n", 3)
		for i := 0; i < n; i++ {
			l = append(l, types.NamespacedName{Name: verifName(vp.Name(p+".name", i)), Namespace: verifName(vp.Name(p+".ns", i))})
		}
		b := verifBase()
		b.destinationRule = model.VerifConsolidatedDR(nil, l...)
		return l, b
	}
	la, a := mk("a")
	lb, b := mk("b")
	eq := len(la) == len(lb)
	if eq {
		for i := range la {
			eq = vp.And(eq, vp.And(la[i].Name == lb[i].Name, la[i].Namespace == lb[i].Namespace))
		}
	}
	vp.Assume(vp.Not(eq))
	ka, kb := verifKeyOf(a), verifKeyOf(b)
	vp.Reach("keys")
	vp.Assert(ka != kb, "different-destination-rule-lists-give-different-eds-keys")
}

// Mutant twin: "the subset name alone distinguishes two builders" must be refuted (convenience field, not in the key;
// the cluster name carries it).
func VerifC06EdsKeyTwin() {
	a, b := verifBase(), verifBase()
	b.subsetName = "v2"
	vp.Assert(verifKeyOf(a) != verifKeyOf(b), "twin")
}
