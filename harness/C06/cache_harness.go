package model

import (
	"time"

	discovery "github.com/envoyproxy/go-control-plane/envoy/service/discovery/v3"

	"istio.io/istio/pilot/pkg/features"
	"istio.io/istio/pkg/config/schema/kind"
	"istio.io/istio/pkg/util/sets"
	vp "istio.io/istio/pkg/zzvp"
)

var verifDeps = []ConfigKey{
	{Kind: kind.DestinationRule, Name: "d1", Namespace: "ns"},
	{Kind: kind.ServiceEntry, Name: "d2", Namespace: "ns"},
}

type verifEntry struct{ deps []ConfigHash }

func (e verifEntry) DependentConfigs() []ConfigHash { return e.deps }

type verifGhost struct {
	start time.Time
	deps  [2]bool
}

type verifClearEvent struct {
	at   time.Time
	deps [2]bool // which dependencies were invalidated (both = ClearAll or Clear of both)
	all  bool
}

// K1: the token / invalidation protocol of the typed xDS cache, as a bounded model check over
// Add / Get / Clear / ClearAll / Flush with LRU eviction (capacity 1, two keys) and symbolic time.
func VerifC06CacheProtocol() {
	features.XDSCacheMaxSize = 1
	c := newTypedXdsCache[uint64]().(*lruCache[uint64])
	ghost := map[*discovery.Resource]verifGhost{}
	var events []verifClearEvent
	depth := 4 + vp.Tier()
	depMenu := [][2]bool{{true, false}, {false, true}, {true, true}}
	// push start instants are readings of the clock (so that a counterexample replays against the wall clock):
	// one push has started before the first operation, further pushes start at "new push" operations
	starts := []time.Time{time.Now()}
	for step := 0; step < depth; step++ {
		p := vp.Name("s", step)
		op := vp.Choice(p+".op", 13)
		switch {
		case op == 12: // a new push starts now
			starts = append(starts, time.Now())
		case op < 6: // Add(key, deps) by the latest push or by the one before it
			key := uint64(op % 2)
			dm := depMenu[op/2]
			var deps []ConfigHash
			for i, in := range dm {
				if in {
					deps = append(deps, verifDeps[i].HashCode())
				}
			}
			start := starts[len(starts)-1]
			if len(starts) > 1 && vp.Choice(p+".olderPush", 2) == 1 {
				start = starts[len(starts)-2]
			}
			val := &discovery.Resource{Name: vp.Name("v", step)}
			ghost[val] = verifGhost{start: start, deps: dm}
			c.Add(key, verifEntry{deps: deps}, &PushRequest{Start: start}, val)
		case op < 8: // Get(key)
			key := uint64(op - 6)
			got := c.Get(key)
			if got != nil {
				vp.Reach("hit")
				g, known := ghost[got]
				vp.Assert(known, "cache-returns-only-what-was-added")
				// never stale: no invalidation of one of its dependencies (or of everything) happened after the
				// snapshot it was generated from (pushes that start at or after an invalidation see the new config)
				for _, ev := range events {
					relevant := ev.all || (ev.deps[0] && g.deps[0]) || (ev.deps[1] && g.deps[1])
					if relevant {
						vp.Assert(!g.start.Before(ev.at), "cached-resource-is-never-older-than-an-invalidation-of-its-dependencies")
					}
				}
			}
		case op < 10: // Clear({d})
			i := op - 8
			before := time.Now() // the invalidation happens no earlier than this instant
			c.Clear(sets.New(verifDeps[i]))
			ev := verifClearEvent{at: before}
			ev.deps[i] = true
			events = append(events, ev)
		case op == 10:
			before := time.Now()
			c.ClearAll()
			events = append(events, verifClearEvent{at: before, all: true})
		case op == 11:
			c.Flush()
		}
		// index invariant: every stored key is indexed under each of its dependencies, otherwise a later
		// targeted Clear would miss it
		for _, key := range c.store.Keys() {
			cv, ok := c.store.Peek(key)
			vp.Assert(ok, "store-keys-consistent")
			for _, d := range cv.dependentConfigs {
				vp.Assert(c.configIndex[d].Contains(key), "stored-entry-is-indexed-under-every-dependency")
			}
		}
	}
}

// Mutant twin: "a Get after a Clear of a dependency may still hit" must be refuted only if the cache is wrong;
// here the twin claims the opposite of the protocol: an Add by a push that started before the last
// invalidation is accepted.
func VerifC06Twin() {
	features.XDSCacheMaxSize = 1
	c := newTypedXdsCache[uint64]().(*lruCache[uint64])
	start := time.Now() // the push started before the invalidation
	c.ClearAll()
	val := &discovery.Resource{Name: "v"}
	c.Add(0, verifEntry{}, &PushRequest{Start: start}, val)
	vp.Assert(c.Get(0) == val, "twin")
}
