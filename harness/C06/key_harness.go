package core

import (
	"strings"

	corev3 "github.com/envoyproxy/go-control-plane/envoy/config/core/v3"
	"k8s.io/apimachinery/pkg/types"

	"istio.io/istio/pilot/pkg/model"
	"istio.io/istio/pkg/config/host"
	"istio.io/istio/pkg/util/hash"
	vp "istio.io/istio/pkg/zzvp"
)

// verifRecorder replaces the digest: the key is its input stream, so "two entries get the same key"
// becomes "the two streams are equal" and no hash collision argument is needed.
type verifRecorder struct{ s *string }

var verifStream string

func (r verifRecorder) Write(p []byte) int        { *r.s += string(p); return len(p) }
func (r verifRecorder) WriteString(s string) int  { *r.s += s; return len(s) }
func (r verifRecorder) Sum() string               { return *r.s }
func (r verifRecorder) Sum64() uint64             { return 0 }
func (r verifRecorder) Reset()                    { *r.s = "" }

func verifHashNew() hash.Hash {
	verifStream = ""
	return verifRecorder{s: &verifStream}
}

// names as Kubernetes / Istio admit them: non-empty, no separator characters
func verifValidName(s string) bool {
	return vp.And3(s != "", !strings.Contains(s, "~"), !strings.Contains(s, "/"))
}

func verifName(n string) string {
	s := vp.StringIn(n, 2, "ab~/")
	vp.Assume(verifValidName(s))
	return s
}

func verifKeyOf(c *clusterCache) string {
	c.Key()
	return verifStream
}

func verifBaseEntry() *clusterCache {
	return &clusterCache{
		clusterName: "outbound|80||svc", proxyVersion: "1.20", proxyClusterID: "c1", proxyType: model.SidecarProxy,
		locality: &corev3.Locality{Region: "r", Zone: "z"}, peerAuthVersion: "pv",
		service: &model.Service{Hostname: "svc", Attributes: model.ServiceAttributes{Namespace: "ns"}},
	}
}

// K2a: every scalar field of the cache entry changes the key.
func VerifC06ClusterKeyFieldSensitivity() {
	a, b := verifBaseEntry(), verifBaseEntry()
	x, y := verifName("x"), verifName("y")
	vp.Assume(x != y)
	bx, by := vp.Bool("bx"), vp.Bool("by")
	field := vp.Choice("field", 14)
	switch field {
	case 0:
		a.clusterName, b.clusterName = x, y
	case 1:
		a.proxyVersion, b.proxyVersion = x, y
	case 2:
		a.locality, b.locality = &corev3.Locality{Region: x}, &corev3.Locality{Region: y}
	case 3:
		a.locality, b.locality = &corev3.Locality{Region: "r", Zone: x}, &corev3.Locality{Region: "r", Zone: y}
	case 4:
		a.proxyClusterID, b.proxyClusterID = x, y
	case 5:
		a.proxyType, b.proxyType = model.NodeType(x), model.NodeType(y)
	case 6:
		vp.Assume(bx != by)
		a.http2, b.http2 = bx, by
	case 7:
		vp.Assume(bx != by)
		a.downstreamAuto, b.downstreamAuto = bx, by
	case 8:
		vp.Assume(bx != by)
		a.supportsIPv4, b.supportsIPv4 = bx, by
	case 9:
		vp.Assume(bx != by)
		a.hbone, b.hbone = bx, by
	case 10:
		a.service = &model.Service{Hostname: host.Name(x), Attributes: model.ServiceAttributes{Namespace: "ns"}}
		b.service = &model.Service{Hostname: host.Name(y), Attributes: model.ServiceAttributes{Namespace: "ns"}}
	case 11:
		a.service = &model.Service{Hostname: "svc", Attributes: model.ServiceAttributes{Namespace: x}}
		b.service = &model.Service{Hostname: "svc", Attributes: model.ServiceAttributes{Namespace: y}}
	case 12:
		a.peerAuthVersion, b.peerAuthVersion = x, y
	case 13:
		vp.Assume(bx != by)
		a.preserveHTTP1HeaderCase, b.preserveHTTP1HeaderCase = bx, by
	}
	ka, kb := verifKeyOf(a), verifKeyOf(b)
	vp.Reach("keys")
	vp.Assert(ka != kb, "field-changes-the-key")
}

func verifDRList(p string, n int) []types.NamespacedName {
	var out []types.NamespacedName
	for i := 0; i < n; i++ {
		out = append(out, types.NamespacedName{Name: verifName(vp.Name(p+".name", i)), Namespace: verifName(vp.Name(p+".ns", i))})
	}
	return out
}

func verifSameDRs(a, b []types.NamespacedName) bool {
	if len(a) != len(b) {
		return false
	}
	same := true
	for i := range a {
		same = vp.And(same, vp.And(a[i].Name == b[i].Name, a[i].Namespace == b[i].Namespace))
	}
	return same
}

// K2b: list-valued fields (DestinationRules merged into the cluster, EnvoyFilter keys, service accounts):
// different lists give different keys - adjacent elements must not be confusable.
func VerifC06ClusterKeyListSeparation() {
	a, b := verifBaseEntry(), verifBaseEntry()
	na, nb := vp.Choice("lenA", 3), vp.Choice("lenB", 3)
	which := vp.Choice("listField", 3)
	switch which {
	case 0:
		la, lb := verifDRList("a", na), verifDRList("b", nb)
		vp.Assume(!verifSameDRs(la, lb))
		a.destinationRule = model.VerifConsolidatedDR(nil, la...)
		b.destinationRule = model.VerifConsolidatedDR(nil, lb...)
	case 1, 2:
		var la, lb []string
		for i := 0; i < na; i++ {
			la = append(la, verifName(vp.Name("a.e", i)))
		}
		for i := 0; i < nb; i++ {
			lb = append(lb, verifName(vp.Name("b.e", i)))
		}
		same := na == nb
		for i := 0; same && i < na; i++ {
			_ = i
		}
		if na == nb {
			eq := true
			for i := range la {
				eq = vp.And(eq, la[i] == lb[i])
			}
			vp.Assume(!eq)
		}
		if which == 1 {
			a.envoyFilterKeys, b.envoyFilterKeys = la, lb
		} else {
			a.serviceAccounts, b.serviceAccounts = la, lb
		}
	}
	ka, kb := verifKeyOf(a), verifKeyOf(b)
	vp.Reach("keys")
	if which == 0 {
		vp.Assert(ka != kb, "different-destination-rule-lists-give-different-keys")
	} else {
		vp.Assert(ka != kb, "different-lists-give-different-keys")
	}
}

// Mutant twin: "the key ignores the proxy's cluster id" must be refuted.
func VerifC06KeyTwin() {
	a, b := verifBaseEntry(), verifBaseEntry()
	a.proxyClusterID, b.proxyClusterID = verifName("x"), verifName("y")
	vp.Assert(verifKeyOf(a) == verifKeyOf(b), "twin")
}
