package xds

import (
	"context"
	"errors"

	discovery "github.com/envoyproxy/go-control-plane/envoy/service/discovery/v3"
	"google.golang.org/grpc/metadata"

	"istio.io/istio/pilot/pkg/model"
	v3 "istio.io/istio/pilot/pkg/xds/v3"
	"istio.io/istio/pkg/util/sets"
	vp "istio.io/istio/pkg/zzvp"
	"google.golang.org/protobuf/proto"
	"google.golang.org/protobuf/types/known/anypb"
	"istio.io/istio/pkg/config/schema/kind"
	workloadsecurity "istio.io/istio/pkg/workloadapi/security"
)

type verifSotwStream struct {
	sent *[]*discovery.DiscoveryResponse
}

func (s verifSotwStream) Send(r *discovery.DiscoveryResponse) error {
	*s.sent = append(*s.sent, r)
	return nil
}
func (s verifSotwStream) Recv() (*discovery.DiscoveryRequest, error) { return nil, errors.New("eof") }
func (s verifSotwStream) SetHeader(metadata.MD) error                { return nil }
func (s verifSotwStream) SendHeader(metadata.MD) error               { return nil }
func (s verifSotwStream) SetTrailer(metadata.MD)                     {}
func (s verifSotwStream) Context() context.Context                   { return context.Background() }
func (s verifSotwStream) SendMsg(m any) error                        { return nil }
func (s verifSotwStream) RecvMsg(m any) error                        { return nil }

func verifNamesOf(in [4]bool) []string {
	var out []string
	for i, n := range verifUniverse[:verifUniverseN()] {
		if in[i] {
			out = append(out, n)
		}
	}
	return out
}

// Delta reconnect: a fresh stream (no server-side record), the client presents whatever it retained
// (initial_resource_versions), an arbitrary nonce issued by some other instance, CDS and EDS in either order.
func VerifC05DeltaReconnect() {
	_, cdsExists := verifSubset("cds.exists")
	_, cdsRetained := verifSubset("cds.retained")
	_, edsExists := verifSubset("eds.exists")
	_, edsWanted := verifSubset("eds.subscribed")
	cdsCalls, edsCalls := 0, 0
	var sent []*discovery.DeltaDiscoveryResponse
	proxy := &model.Proxy{ID: "p", Type: model.SidecarProxy, Metadata: &model.NodeMetadata{}, WatchedResources: map[string]*model.WatchedResource{},
		LastPushContext: &model.PushContext{PushVersion: "v1"}}
	s := &DiscoveryServer{Generators: map[string]model.XdsResourceGenerator{
		v3.ClusterType:  verifGen{produce: cdsExists, calls: &cdsCalls},
		v3.EndpointType: verifGen{produce: edsExists, honourNames: true, calls: &edsCalls},
	}}
	con := &Connection{proxy: proxy, deltaStream: verifDeltaStream{sent: &sent}}

	oldNonceC, oldNonceE := vp.String("cds.oldNonce", 3), vp.String("eds.oldNonce", 3)
	vp.Assume(vp.And(oldNonceC != "", oldNonceE != "")) // a reconnecting client presents the last nonce it saw
	initial := map[string]string{}
	for _, n := range verifNamesOf(cdsRetained) {
		initial[n] = "v0"
	}
	cdsReq := &discovery.DeltaDiscoveryRequest{TypeUrl: v3.ClusterType, ResponseNonce: oldNonceC, InitialResourceVersions: initial}
	if vp.Choice("cds.explicitWildcard", 2) == 1 {
		cdsReq.ResourceNamesSubscribe = []string{"*"}
	}
	edsReq := &discovery.DeltaDiscoveryRequest{TypeUrl: v3.EndpointType, ResponseNonce: oldNonceE, ResourceNamesSubscribe: verifNamesOf(edsWanted)}
	cdsFirst := vp.Choice("cdsFirst", 2) == 1
	var cdsResp, edsResps []*discovery.DeltaDiscoveryResponse
	collect := func() {
		for _, r := range sent {
			if r.TypeUrl == v3.ClusterType {
				cdsResp = append(cdsResp, r)
			} else {
				edsResps = append(edsResps, r)
			}
		}
		sent = nil
	}
	if cdsFirst {
		vp.Assert(s.processDeltaRequest(cdsReq, con) == nil, "no-error")
		collect()
		vp.Assert(s.processDeltaRequest(edsReq, con) == nil, "no-error")
		collect()
	} else {
		vp.Assert(s.processDeltaRequest(edsReq, con) == nil, "no-error")
		collect()
		vp.Assert(s.processDeltaRequest(cdsReq, con) == nil, "no-error")
		collect()
	}
	vp.Reach("resynced")
	vp.Assert(len(cdsResp) == 1, "cds-request-on-new-stream-is-answered")
	got := sets.New[string]()
	for _, r := range cdsResp[0].Resources {
		got.Insert(r.Name)
	}
	removed := sets.New(cdsResp[0].RemovedResources...)
	for i, n := range verifUniverse[:verifUniverseN()] {
		vp.Assert(got.Contains(n) == cdsExists[i], "current-clusters-are-sent")
		if cdsRetained[i] && !cdsExists[i] {
			vp.Assert(removed.Contains(n), "retained-but-deleted-cluster-is-removed")
		}
		if cdsExists[i] {
			vp.Assert(!removed.Contains(n), "existing-cluster-is-not-removed")
		}
	}
	vp.Assert(verifSameSet(proxy.WatchedResources[v3.ClusterType].ResourceNames, got), "cluster-record-is-current-state")
	// EDS: the subscription is answered (when it names anything), and again after CDS so nothing stays warming
	wantsAny := edsWanted[0] || edsWanted[1] || edsWanted[2]
	if wantsAny {
		vp.Assert(len(edsResps) >= 1, "eds-subscription-on-new-stream-is-answered")
		if !cdsFirst {
			vp.Assert(len(edsResps) == 2, "cds-request-is-followed-by-an-eds-push")
		}
		last := sets.New[string]()
		for _, r := range edsResps[len(edsResps)-1].Resources {
			last.Insert(r.Name)
		}
		for i, n := range verifUniverse[:verifUniverseN()] {
			vp.Assert(last.Contains(n) == (edsWanted[i] && edsExists[i]), "wanted-endpoints-are-sent")
		}
	}
	vp.Assert(len(edsResps) <= 2 && cdsCalls == 1, "no-response-loop")
}

// SotW reconnect: requests carry nonces of another instance; EDS re-requested after the CDS response with a
// matching nonce must be answered once (warming), and then the server is silent (no loop).
func VerifC05SotwReconnect() {
	_, cdsExists := verifSubset("cds.exists")
	_, edsExists := verifSubset("eds.exists")
	_, edsWanted := verifSubset("eds.subscribed")
	vp.Assume(edsWanted[0] || edsWanted[1] || edsWanted[2])
	cdsCalls, edsCalls := 0, 0
	var sent []*discovery.DiscoveryResponse
	con := newConnection("peer", verifSotwStream{sent: &sent})
	proxy := &model.Proxy{ID: "p", Type: model.SidecarProxy, Metadata: &model.NodeMetadata{}, WatchedResources: map[string]*model.WatchedResource{},
		LastPushContext: &model.PushContext{PushVersion: "v1"}}
	con.proxy = proxy
	s := &DiscoveryServer{Generators: map[string]model.XdsResourceGenerator{
		v3.ClusterType:  verifGen{produce: cdsExists, calls: &cdsCalls},
		v3.EndpointType: verifGen{produce: edsExists, honourNames: true, calls: &edsCalls},
	}}
	oldNonceC, oldNonceE := vp.String("cds.oldNonce", 3), vp.String("eds.oldNonce", 3)
	vp.Assume(vp.And(oldNonceC != "", oldNonceE != ""))
	eds := func(nonce string) *discovery.DiscoveryRequest {
		return &discovery.DiscoveryRequest{TypeUrl: v3.EndpointType, ResponseNonce: nonce, ResourceNames: verifNamesOf(edsWanted), VersionInfo: "v0"}
	}
	// 1. EDS request (retained subscription), 2. CDS request, both with foreign nonces
	vp.Assert(s.processRequest(eds(oldNonceE), con) == nil, "no-error")
	vp.Assert(len(sent) == 1 && sent[0].TypeUrl == v3.EndpointType, "eds-request-on-new-stream-is-answered")
	edsNonce := sent[0].Nonce
	vp.Assert(s.processRequest(&discovery.DiscoveryRequest{TypeUrl: v3.ClusterType, ResponseNonce: oldNonceC, VersionInfo: "v0"}, con) == nil, "no-error")
	vp.Assert(len(sent) == 2 && sent[1].TypeUrl == v3.ClusterType, "cds-request-on-new-stream-is-answered")
	// 3. Envoy warms the clusters it got from CDS and re-requests EDS with the nonce it already ACKed. The cluster
	// set may have changed while it was away, so the names may differ from step 1. It looks like an ACK (or a
	// mere subscription change) but everything named must be answered, otherwise clusters stay warming.
	_, edsWanted2 := verifSubset("eds.resubscribed")
	vp.Assume(edsWanted2[0] || edsWanted2[1] || edsWanted2[2])
	eds2 := func(nonce string) *discovery.DiscoveryRequest {
		return &discovery.DiscoveryRequest{TypeUrl: v3.EndpointType, ResponseNonce: nonce, ResourceNames: verifNamesOf(edsWanted2), VersionInfo: "v0"}
	}
	vp.Assert(s.processRequest(eds2(edsNonce), con) == nil, "no-error")
	vp.Reach("warmed")
	vp.Assert(len(sent) == 3 && sent[2].TypeUrl == v3.EndpointType, "eds-re-request-after-cds-is-answered-for-warming")
	if len(sent) == 3 {
		got := 0
		for i := range verifUniverse[:verifUniverseN()] {
			if edsWanted2[i] && edsExists[i] {
				got++
			}
		}
		vp.Assert(len(sent[2].Resources) == got, "warming-response-covers-every-named-cluster")
	}
	// 4. the ACK of that response is silent, and so is a repeated ACK: no loop
	vp.Assert(s.processRequest(eds2(sent[2].Nonce), con) == nil, "no-error")
	vp.Assert(s.processRequest(eds2(sent[2].Nonce), con) == nil, "no-error")
	vp.Assert(len(sent) == 3, "server-is-silent-after-the-ack")
}

// Mutant twin: "a reconnecting client that retained everything gets no CDS response" must be refuted.
func VerifC05Twin() {
	calls := 0
	var sent []*discovery.DeltaDiscoveryResponse
	proxy := &model.Proxy{ID: "p", Type: model.SidecarProxy, Metadata: &model.NodeMetadata{}, WatchedResources: map[string]*model.WatchedResource{},
		LastPushContext: &model.PushContext{PushVersion: "v1"}}
	s := &DiscoveryServer{Generators: map[string]model.XdsResourceGenerator{v3.ClusterType: verifGen{produce: [4]bool{true, false, false}, calls: &calls}}}
	con := &Connection{proxy: proxy, deltaStream: verifDeltaStream{sent: &sent}}
	s.processDeltaRequest(&discovery.DeltaDiscoveryRequest{TypeUrl: v3.ClusterType, ResponseNonce: vp.String("n", 2), InitialResourceVersions: map[string]string{"a": "v"}}, con)
	vp.Assert(len(sent) == 0, "twin")
}

// ---------------------------------------------------------------- ztunnel (ambient) reconnect

// the ambient index as the WorkloadRBACGenerator sees it: the policies that exist now
type verifAmbient struct {
	model.AmbientIndexes // nil: only Policies is used
	exists               [4]bool
}

func (a verifAmbient) Policies(requested sets.Set[model.ConfigKey]) []model.WorkloadAuthorization {
	var out []model.WorkloadAuthorization
	for i, n := range verifUniverse[:verifUniverseN()] {
		if !a.exists[i] {
			continue
		}
		k := model.ConfigKey{Kind: kind.AuthorizationPolicy, Name: n, Namespace: "ns"}
		if len(requested) > 0 && !requested.Contains(k) {
			continue
		}
		out = append(out, model.WorkloadAuthorization{Authorization: &workloadsecurity.Authorization{Name: n, Namespace: "ns"}})
	}
	return out
}

func verifMessageToAny(msg proto.Message) *anypb.Any { return &anypb.Any{} }

// A ztunnel reconnects to a fresh stream with a wildcard subscription to workload authorization policies and presents
// the policies it retained: it is sent every policy that exists now and is told to remove every retained policy that
// does not exist any more (the REAL WorkloadRBACGenerator computes the removals from the server's record of the
// stream); a later forced push after further deletions removes those as well.
func VerifC05ZtunnelReconnect() {
	_, exists := verifSubset("wads.exists")
	_, retained := verifSubset("wads.retained")
	var sent []*discovery.DeltaDiscoveryResponse
	proxy := &model.Proxy{ID: "z", Type: model.Ztunnel, Metadata: &model.NodeMetadata{}, WatchedResources: map[string]*model.WatchedResource{},
		LastPushContext: &model.PushContext{PushVersion: "v1"}}
	amb := &verifAmbient{exists: exists}
	s := &DiscoveryServer{Env: &model.Environment{AmbientIndexes: amb}}
	s.Generators = map[string]model.XdsResourceGenerator{v3.WorkloadAuthorizationType: WorkloadRBACGenerator{Server: s}}
	con := &Connection{proxy: proxy, deltaStream: verifDeltaStream{sent: &sent}}
	oldNonce := vp.String("wads.oldNonce", 3)
	initial := map[string]string{}
	for i, n := range verifUniverse[:verifUniverseN()] {
		if retained[i] {
			initial["ns/"+n] = "v0"
		}
	}
	req := &discovery.DeltaDiscoveryRequest{TypeUrl: v3.WorkloadAuthorizationType, ResponseNonce: oldNonce, InitialResourceVersions: initial}
	if vp.Choice("wads.explicitWildcard", 2) == 1 {
		req.ResourceNamesSubscribe = []string{"*"}
	}
	vp.Assert(s.processDeltaRequest(req, con) == nil, "no-error")
	vp.Reach("ztunnel-resynced")
	vp.Assert(len(sent) == 1, "ztunnel-request-on-new-stream-is-answered")
	got := sets.New[string]()
	for _, r := range sent[0].Resources {
		got.Insert(r.Name)
	}
	removed := sets.New(sent[0].RemovedResources...)
	for i, n := range verifUniverse[:verifUniverseN()] {
		vp.Assert(got.Contains("ns/"+n) == exists[i], "current-policies-are-sent")
		if retained[i] && !exists[i] {
			vp.Assert(removed.Contains("ns/"+n), "retained-but-deleted-policy-is-removed")
		}
		if exists[i] {
			vp.Assert(!removed.Contains("ns/"+n), "existing-policy-is-not-removed")
		}
	}
	// later: some policies are deleted and a forced (full) push follows
	_, still := verifSubset("wads.existsLater")
	for i := range still {
		still[i] = still[i] && exists[i]
	}
	amb.exists = still
	sent = nil
	w := proxy.GetWatchedResource(v3.WorkloadAuthorizationType)
	vp.Assert(w != nil, "stream-is-recorded")
	vp.Assert(s.pushDeltaXds(con, w, &model.PushRequest{Forced: true, Push: proxy.LastPushContext}) == nil, "no-error")
	removedLater := sets.New[string]()
	for _, r := range sent {
		removedLater.InsertAll(r.RemovedResources...)
	}
	for i, n := range verifUniverse[:verifUniverseN()] {
		if exists[i] && !still[i] {
			vp.Assert(removedLater.Contains("ns/"+n), "policy-deleted-later-is-removed-by-the-forced-push")
		}
	}
}
