package inject

import (
	corev1 "k8s.io/api/core/v1"
	metav1 "k8s.io/apimachinery/pkg/apis/meta/v1"
	"k8s.io/apimachinery/pkg/labels"
	"k8s.io/apimachinery/pkg/selection"

	"istio.io/api/annotation"
	"istio.io/api/label"
	vp "istio.io/istio/pkg/zzvp"
)

// verifSel is a label selector whose behaviour is three symbolic booleans.
type verifSel struct {
	empty, matches bool
}

func (s verifSel) Matches(labels.Labels) bool                                   { return s.matches }
func (s verifSel) Empty() bool                                                  { return s.empty }
func (s verifSel) String() string                                               { return "verif" }
func (s verifSel) Add(r ...labels.Requirement) labels.Selector                  { return s }
func (s verifSel) Requirements() (labels.Requirements, bool)                    { return nil, true }
func (s verifSel) DeepCopySelector() labels.Selector                            { return s }
func (s verifSel) RequiresExactMatch(label string) (value string, found bool) { return "", false }

var _ = selection.Equals

type verifSelErr struct{}

func (verifSelErr) Error() string { return "invalid selector" }

// verifLabelSelectorAsSelector replaces metav1.LabelSelectorAsSelector: the selector's
// validity, emptiness and match result are arbitrary (symbolic) per selector.
func verifLabelSelectorAsSelector(ps *metav1.LabelSelector) (labels.Selector, error) {
	id := ps.MatchLabels["verif-id"]
	if vp.Bool(id + ".invalid") {
		return nil, verifSelErr{}
	}
	return verifSel{empty: vp.Bool(id + ".empty"), matches: vp.Bool(id + ".matches")}, nil
}

func verifSelectors(prefix string, n int) []metav1.LabelSelector {
	var out []metav1.LabelSelector
	for i := 0; i < n; i++ {
		out = append(out, metav1.LabelSelector{MatchLabels: map[string]string{"verif-id": vp.Name(prefix, i)}})
	}
	return out
}

// firstMatch: index semantics of "first non-empty valid selector that matches".
func verifAnySelects(prefix string, n int) bool {
	r := false
	for i := 0; i < n; i++ {
		id := vp.Name(prefix, i)
		r = vp.Or(r, vp.And3(!vp.Bool(id+".invalid"), !vp.Bool(id+".empty"), vp.Bool(id+".matches")))
	}
	return r
}

func verifC19(policyOracle func(policy string, useDefault, inject bool) bool, labelFirst bool) (got, want bool) {
	hostNet := vp.Bool("hostNetwork")
	ns := vp.String("namespace", 4)
	ignored := []string{vp.String("ignored0", 4), vp.String("ignored1", 4)}
	// the pod's other labels: none at all (nil map), an empty map, or one unrelated label
	var lbls map[string]string
	switch vp.Choice("podLabels", 3) {
	case 1:
		lbls = map[string]string{}
	case 2:
		lbls = map[string]string{"app": "x"}
	}
	annos := map[string]string{"other.example/anno": vp.String("otherAnno", 4)}
	labelPresent := vp.Choice("labelPresent", 2) == 1
	annoPresent := vp.Choice("annoPresent", 2) == 1
	labelVal, annoVal := "", ""
	if labelPresent {
		labelVal = vp.String("labelVal", 5)
		if lbls == nil {
			lbls = map[string]string{}
		}
		lbls[label.SidecarInject.Name] = labelVal
	}
	if annoPresent {
		annoVal = vp.String("annoVal", 5)
		annos[annotation.SidecarInject.Name] = annoVal
	}
	nNever := vp.Choice("nNever", 3+vp.Tier())
	nAlways := vp.Choice("nAlways", 3+vp.Tier())
	policy := vp.String("policy", 8)
	cfg := &Config{Policy: InjectionPolicy(policy), NeverInjectSelector: verifSelectors("never", nNever), AlwaysInjectSelector: verifSelectors("always", nAlways)}
	meta := metav1.ObjectMeta{Name: "pod", Namespace: ns, Labels: lbls, Annotations: annos}

	got = injectRequired(ignored, cfg, &corev1.PodSpec{HostNetwork: hostNet}, meta)
	vp.Reach("after")

	// oracle: the documented precedence as a decision list
	var explicit string
	if labelFirst {
		explicit = vp.IteString(labelPresent, labelVal, annoVal)
	} else {
		explicit = vp.IteString(annoPresent, annoVal, labelVal)
	}
	never := verifAnySelects("never", nNever)
	always := verifAnySelects("always", nAlways)
	isTrue, isFalse := explicit == "true", explicit == "false"
	useDefault := vp.And3(!isTrue, !isFalse, vp.And(!never, !always))
	injectV := vp.Or(isTrue, vp.And3(!isTrue, !isFalse, vp.And(!never, always)))
	byPolicy := policyOracle(policy, useDefault, injectV)
	excluded := vp.Or3(hostNet, ns == ignored[0], ns == ignored[1])
	want = vp.And(!excluded, byPolicy)
	return got, want
}

func verifPolicyOracle(policy string, useDefault, inject bool) bool {
	// enabled: default true; disabled: default false; anything else: never
	en, dis := policy == "enabled", policy == "disabled"
	return vp.Or(vp.And(en, vp.Or(useDefault, inject)), vp.And3(dis, !useDefault, inject))
}

func VerifC19Decision() {
	got, want := verifC19(verifPolicyOracle, true)
	vp.Assert(got == want, "decision-equals-documented-precedence")
}

// Mutant twin: an oracle preferring the annotation over the label must be refuted.
func VerifC19Twin() {
	got, want := verifC19(verifPolicyOracle, false)
	vp.Assert(got == want, "twin")
}
