package inject

// C19-K2: the admission path. Webhook.inject decodes the pod, fills in what the API server leaves out (a pod created by
// a controller carries no namespace of its own: it arrives on the admission request) and then asks injectRequired.
// The decision taken for the request must be the decision injectRequired documents for the pod in the namespace it
// will live in - in particular pods of the ignored system namespaces are never injected.

import (
	corev1 "k8s.io/api/core/v1"
	metav1 "k8s.io/apimachinery/pkg/apis/meta/v1"
	"k8s.io/apimachinery/pkg/runtime"

	"istio.io/api/annotation"
	"istio.io/api/label"
	meshconfig "istio.io/api/mesh/v1alpha1"
	"istio.io/istio/pilot/pkg/model"
	"istio.io/istio/pkg/kube"
	vp "istio.io/istio/pkg/zzvp"
)

var (
	verifWebhookPod      corev1.Pod
	verifWebhookInjected bool
)

// stands in for encoding/json.Unmarshal of the admission object (the decoder is outside the claim)
func verifUnmarshal(data []byte, v any) error {
	if p, ok := v.(*corev1.Pod); ok {
		*p = *verifWebhookPod.DeepCopy()
	}
	return nil
}

// stands in for injectPod (template rendering and patch generation are outside the claim): records the decision
func verifInjectPod(req InjectionParameters) ([]byte, error) {
	verifWebhookInjected = true
	return nil, nil
}

func verifGetProxyConfigOrDefault(e *model.Environment, ns string, labels, annotations map[string]string, mc *meshconfig.MeshConfig) *meshconfig.ProxyConfig {
	return &meshconfig.ProxyConfig{}
}

func verifExtractClusterAndNetwork(params InjectionParameters) (string, string) { return "", "" }

func VerifC19AdmissionNamespace() {
	namespaces := []string{"ns1", "kube-system", "kube-node-lease"}
	reqNs := namespaces[vp.Choice("request.namespace", len(namespaces))]
	pod := corev1.Pod{ObjectMeta: metav1.ObjectMeta{Name: "p"}, Spec: corev1.PodSpec{HostNetwork: vp.Choice("hostNetwork", 2) == 1}}
	if vp.Choice("pod.carriesNamespace", 2) == 1 {
		pod.Namespace = reqNs
	}
	vals := []string{"true", "false"}
	if v := vp.Choice("labelVal", 3); v > 0 {
		pod.Labels = map[string]string{label.SidecarInject.Name: vals[v-1]}
	}
	if v := vp.Choice("annoVal", 3); v > 0 {
		pod.Annotations = map[string]string{annotation.SidecarInject.Name: vals[v-1]}
	}
	cfg := &Config{Policy: []InjectionPolicy{InjectionPolicyEnabled, InjectionPolicyDisabled}[vp.Choice("policy", 2)]}
	wh := &Webhook{Config: cfg, meshConfig: &meshconfig.MeshConfig{}, env: &model.Environment{}}
	verifWebhookPod = pod
	verifWebhookInjected = false
	ar := &kube.AdmissionReview{Request: &kube.AdmissionRequest{Namespace: reqNs, Object: runtime.RawExtension{Raw: []byte("{}")}}}
	resp := wh.inject(ar, "/inject")
	vp.Reach("decided")
	vp.Assert(resp != nil && resp.Allowed, "admission-is-allowed")
	// the documented decision for the pod in the namespace it will live in
	meta := pod.ObjectMeta
	meta.Namespace = reqNs
	want := injectRequired(IgnoredNamespaces.UnsortedList(), cfg, &pod.Spec, meta)
	vp.Assert(verifWebhookInjected == want, "admission-decision-is-the-documented-decision-for-the-pods-namespace")
	if reqNs != "ns1" {
		vp.Assert(!verifWebhookInjected, "pods-of-ignored-namespaces-are-never-injected")
	}
}

// Mutant twin: "nothing is ever injected" must be refuted.
func VerifC19AdmissionTwin() {
	pod := corev1.Pod{ObjectMeta: metav1.ObjectMeta{Name: "p", Labels: map[string]string{label.SidecarInject.Name: "true"}}}
	cfg := &Config{Policy: InjectionPolicyEnabled}
	wh := &Webhook{Config: cfg, meshConfig: &meshconfig.MeshConfig{}, env: &model.Environment{}}
	verifWebhookPod = pod
	verifWebhookInjected = false
	ar := &kube.AdmissionReview{Request: &kube.AdmissionRequest{Namespace: "ns1", Object: runtime.RawExtension{Raw: []byte("{}")}}}
	wh.inject(ar, "/inject")
	vp.Assert(!verifWebhookInjected, "twin")
}
