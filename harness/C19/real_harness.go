package inject

// C19 with REAL label selectors (no replacement of LabelSelectorAsSelector, so that counterexamples replay natively):
// the selector shapes cover invalid, empty, matching-every-pod (negative expression), matching-labelled-pods-only and
// non-matching selectors, against pods with no labels, an empty label map or one label.

import (
	corev1 "k8s.io/api/core/v1"
	metav1 "k8s.io/apimachinery/pkg/apis/meta/v1"

	"istio.io/api/annotation"
	"istio.io/api/label"
	vp "istio.io/istio/pkg/zzvp"
)

type verifRealSel struct {
	sel                      metav1.LabelSelector
	invalid, empty           bool
	matchesAll, matchesIfApp bool
}

var verifRealSels = []verifRealSel{
	{sel: metav1.LabelSelector{MatchExpressions: []metav1.LabelSelectorRequirement{{Key: "verif-none", Operator: metav1.LabelSelectorOpDoesNotExist}}}, matchesAll: true},
	{sel: metav1.LabelSelector{MatchExpressions: []metav1.LabelSelectorRequirement{{Key: "app", Operator: metav1.LabelSelectorOpExists}}}, matchesIfApp: true},
	{sel: metav1.LabelSelector{MatchExpressions: []metav1.LabelSelectorRequirement{{Key: "verif-none", Operator: metav1.LabelSelectorOpExists}}}},
	{sel: metav1.LabelSelector{}, empty: true},
	{sel: metav1.LabelSelector{MatchExpressions: []metav1.LabelSelectorRequirement{{Key: "app", Operator: "bogus"}}}, invalid: true},
}

func VerifC19RealSelectors() {
	var lbls map[string]string
	hasApp := false
	switch vp.Choice("podLabels", 3) {
	case 1:
		lbls = map[string]string{}
	case 2:
		lbls = map[string]string{"app": "x"}
		hasApp = true
	}
	annos := map[string]string{}
	// the inject label and the inject annotation: each absent or one of true / false / something else; the label wins
	// whenever it is present (whatever its value)
	vals := []string{"true", "false", "maybe"}
	explicit := ""
	annoV := vp.Choice("annoVal", 4)
	if annoV > 0 {
		annos[annotation.SidecarInject.Name] = vals[annoV-1]
		explicit = vals[annoV-1]
	}
	labelV := vp.Choice("labelVal", 4)
	if labelV > 0 {
		if lbls == nil {
			lbls = map[string]string{}
		}
		lbls[label.SidecarInject.Name] = vals[labelV-1]
		explicit = vals[labelV-1]
	}
	pick := func(p string) ([]metav1.LabelSelector, bool) {
		n := vp.Choice(p+".n", 3)
		var out []metav1.LabelSelector
		selects := false
		for i := 0; i < n; i++ {
			s := verifRealSels[vp.Choice(vp.Name(p, i)+".shape", len(verifRealSels))]
			out = append(out, s.sel)
			if !s.invalid && !s.empty && (s.matchesAll || s.matchesIfApp && hasApp) {
				selects = true
			}
		}
		return out, selects
	}
	neverSel, never := pick("never")
	alwaysSel, always := pick("always")
	policy := []string{"enabled", "disabled", "other"}[vp.Choice("policy", 3)]
	cfg := &Config{Policy: InjectionPolicy(policy), NeverInjectSelector: neverSel, AlwaysInjectSelector: alwaysSel}
	meta := metav1.ObjectMeta{Name: "pod", Namespace: "ns", Labels: lbls, Annotations: annos}
	got := injectRequired(nil, cfg, &corev1.PodSpec{}, meta)
	vp.Reach("decided")
	isTrue, isFalse := explicit == "true", explicit == "false"
	useDefault := !isTrue && !isFalse && !never && !always
	inject := isTrue || (!isTrue && !isFalse && !never && always)
	want := false
	switch policy {
	case "enabled":
		want = useDefault || inject
	case "disabled":
		want = !useDefault && inject
	}
	vp.Assert(got == want, "decision-equals-documented-precedence-with-real-selectors")
}
