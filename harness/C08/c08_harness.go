package model

import (
	"strconv"
	"strings"

	rbacpb "github.com/envoyproxy/go-control-plane/envoy/config/rbac/v3"
	routepb "github.com/envoyproxy/go-control-plane/envoy/config/route/v3"
	matcherpb "github.com/envoyproxy/go-control-plane/envoy/type/matcher/v3"
	"k8s.io/apimachinery/pkg/types"

	authzpb "istio.io/api/security/v1beta1"
	"istio.io/istio/pilot/pkg/security/trustdomain"
	vp "istio.io/istio/pkg/zzvp"
)

// ---------------------------------------------------------------- request

type verifRequest struct {
	method, path, host string
	port               uint32
	principal          string // peer URI SAN (spiffe://...), "" when the peer is not authenticated
	iss, sub           string // JWT claims ("" when absent)
	srcIP, remoteIP    uint32 // direct peer address and original client address (IPv4)
}

func verifReq() *verifRequest {
	r := &verifRequest{
		method: vp.StringIn("req.method", 3, "GEPUT"), path: "/" + vp.StringIn("req.path", 2, "ab/"), host: vp.StringIn("req.host", 3, "ab."),
		port: vp.Uint32("req.port"), iss: vp.StringIn("req.iss", 1, "ij"), sub: vp.StringIn("req.sub", 1, "uv"),
		srcIP: vp.Uint32("req.srcIP"), remoteIP: vp.Uint32("req.remoteIP"),
	}
	// the peer is unauthenticated (no principal) or carries a well-formed SPIFFE identity with arbitrary parts
	if vp.Choice("req.authenticated", 2) == 1 {
		td, ns, sa := vp.StringIn("req.td", 2, "td"), vp.StringIn("req.ns", 2, "ab"), vp.StringIn("req.sa", 2, "ab")
		vp.Assume(vp.And3(td != "", ns != "", sa != ""))
		r.principal = "spiffe://" + td + "/ns/" + ns + "/sa/" + sa
	}
	// an HTTP request always carries a method and an authority
	vp.Assume(vp.And3(r.port < 65536, r.method != "", r.host != ""))
	return r
}

// ---------------------------------------------------------------- reference Envoy RBAC evaluator (from the Envoy API docs)

func verifStringMatcher(m *matcherpb.StringMatcher, v string) bool {
	// IgnoreCase: all harness strings are lower case, so case folding is the identity (stated bound)
	switch p := m.MatchPattern.(type) {
	case *matcherpb.StringMatcher_Exact:
		return v == p.Exact
	case *matcherpb.StringMatcher_Prefix:
		return strings.HasPrefix(v, p.Prefix)
	case *matcherpb.StringMatcher_Suffix:
		return strings.HasSuffix(v, p.Suffix)
	case *matcherpb.StringMatcher_SafeRegex:
		return vp.RegexFullMatch(p.SafeRegex.Regex, v)
	}
	panic("unmodelled string matcher")
}

func verifHeader(h *routepb.HeaderMatcher, r *verifRequest) bool {
	var v string
	switch h.Name {
	case ":method":
		v = r.method
	case ":authority":
		v = r.host
	default:
		panic("unmodelled header " + h.Name)
	}
	switch s := h.HeaderMatchSpecifier.(type) {
	case *routepb.HeaderMatcher_PresentMatch:
		return s.PresentMatch // pseudo headers are always present
	case *routepb.HeaderMatcher_StringMatch:
		return verifStringMatcher(s.StringMatch, v)
	}
	panic("unmodelled header matcher")
}

func verifMetadata(m *matcherpb.MetadataMatcher, r *verifRequest) bool {
	if len(m.Path) != 2 {
		panic("unmodelled metadata path")
	}
	claim := m.Path[1].GetKey()
	var v string
	switch claim {
	case "iss":
		v = r.iss
	case "sub":
		v = r.sub
	default:
		panic("unmodelled claim " + claim)
	}
	sm, ok := m.Value.MatchPattern.(*matcherpb.ValueMatcher_StringMatch)
	if !ok {
		panic("unmodelled value matcher")
	}
	// a missing claim has no value and matches nothing
	return vp.And(v != "", verifStringMatcher(sm.StringMatch, v))
}

func verifPermission(p *rbacpb.Permission, r *verifRequest) bool {
	switch x := p.Rule.(type) {
	case *rbacpb.Permission_Any:
		return x.Any
	case *rbacpb.Permission_AndRules:
		ok := true
		for _, q := range x.AndRules.Rules {
			ok = vp.And(ok, verifPermission(q, r))
		}
		return ok
	case *rbacpb.Permission_OrRules:
		ok := false
		for _, q := range x.OrRules.Rules {
			ok = vp.Or(ok, verifPermission(q, r))
		}
		return ok
	case *rbacpb.Permission_NotRule:
		return vp.Not(verifPermission(x.NotRule, r))
	case *rbacpb.Permission_Header:
		return verifHeader(x.Header, r)
	case *rbacpb.Permission_UrlPath:
		return verifStringMatcher(x.UrlPath.GetPath(), r.path)
	case *rbacpb.Permission_DestinationPort:
		return r.port == x.DestinationPort
	}
	panic("unmodelled permission")
}

func verifPrincipal(p *rbacpb.Principal, r *verifRequest) bool {
	switch x := p.Identifier.(type) {
	case *rbacpb.Principal_Any:
		return x.Any
	case *rbacpb.Principal_AndIds:
		ok := true
		for _, q := range x.AndIds.Ids {
			ok = vp.And(ok, verifPrincipal(q, r))
		}
		return ok
	case *rbacpb.Principal_OrIds:
		ok := false
		for _, q := range x.OrIds.Ids {
			ok = vp.Or(ok, verifPrincipal(q, r))
		}
		return ok
	case *rbacpb.Principal_NotId:
		return vp.Not(verifPrincipal(x.NotId, r))
	case *rbacpb.Principal_Authenticated_:
		return verifStringMatcher(x.Authenticated.PrincipalName, r.principal)
	case *rbacpb.Principal_DirectRemoteIp:
		return verifInCidr(x.DirectRemoteIp.AddressPrefix, x.DirectRemoteIp.PrefixLen.GetValue(), r.srcIP)
	case *rbacpb.Principal_RemoteIp:
		return verifInCidr(x.RemoteIp.AddressPrefix, x.RemoteIp.PrefixLen.GetValue(), r.remoteIP)
	case *rbacpb.Principal_Metadata:
		return verifMetadata(x.Metadata, r)
	case *rbacpb.Principal_Header:
		return verifHeader(x.Header, r)
	}
	panic("unmodelled principal")
}

func verifParseV4(s string) uint32 {
	var a uint32
	parts := strings.Split(s, ".")
	if len(parts) != 4 {
		panic("not an IPv4 address: " + s)
	}
	for _, p := range parts {
		n, err := strconv.Atoi(p)
		if err != nil || n < 0 || n > 255 {
			panic("not an IPv4 address: " + s)
		}
		a = a<<8 | uint32(n)
	}
	return a
}

func verifInCidr(prefix string, bits uint32, ip uint32) bool {
	if bits > 32 {
		panic("prefix length")
	}
	var mask uint32
	if bits > 0 {
		mask = ^uint32(0) << (32 - bits)
	}
	return ip&mask == verifParseV4(prefix)&mask
}

// reference reading of an ipBlocks value: a single address or a CIDR
func verifIPBlock(v string, ip uint32) bool {
	addr, bitsS, isCidr := strings.Cut(v, "/")
	bits := 32
	if isCidr {
		b, err := strconv.Atoi(bitsS)
		if err != nil {
			panic("bad cidr in the menu")
		}
		bits = b
	}
	return verifInCidr(addr, uint32(bits), ip)
}

func verifPolicyMatches(p *rbacpb.Policy, r *verifRequest) bool {
	perm, prin := false, false
	for _, q := range p.Permissions {
		perm = vp.Or(perm, verifPermission(q, r))
	}
	for _, q := range p.Principals {
		prin = vp.Or(prin, verifPrincipal(q, r))
	}
	return vp.And(perm, prin)
}

// ---------------------------------------------------------------- reference AuthorizationPolicy semantics (from the API reference)

// value forms: "*" (present / non-empty), "p*" prefix, "*s" suffix, otherwise exact
func verifValue(v, actual string) bool {
	switch {
	case v == "*":
		return actual != ""
	case strings.HasPrefix(v, "*"):
		return strings.HasSuffix(actual, v[1:])
	case strings.HasSuffix(v, "*"):
		return strings.HasPrefix(actual, v[:len(v)-1])
	}
	return actual == v
}

func verifField(values, notValues []string, match func(v string) bool) bool {
	ok := true
	if len(values) > 0 {
		any := false
		for _, v := range values {
			any = vp.Or(any, match(v))
		}
		ok = vp.And(ok, any)
	}
	if len(notValues) > 0 {
		any := false
		for _, v := range notValues {
			any = vp.Or(any, match(v))
		}
		ok = vp.And(ok, vp.Not(any))
	}
	return ok
}

// peer identity parts: spiffe://<td>/ns/<ns>/sa/<sa>
func verifPeerParts(principal string) (ok bool, td, ns, sa string) {
	rest, has := strings.CutPrefix(principal, "spiffe://")
	td, r1, ok1 := strings.Cut(rest, "/ns/")
	ns, sa, ok2 := strings.Cut(r1, "/sa/")
	ok = vp.And3(has, ok1, vp.And3(ok2, !strings.Contains(td, "/"), vp.And(!strings.Contains(ns, "/"), !strings.Contains(sa, "/"))))
	return
}

func verifRuleMatches(rule *authzpb.Rule, r *verifRequest) bool {
	from := len(rule.From) == 0
	for _, f := range rule.From {
		s := f.Source
		okPeer, _, ns, _ := verifPeerParts(r.principal)
		m := verifField(s.Principals, s.NotPrincipals, func(v string) bool {
			if v == "*" {
				return r.principal != "" // any authenticated peer
			}
			if strings.HasPrefix(v, "*") {
				return strings.HasSuffix(r.principal, v[1:])
			}
			return verifValue("spiffe://"+v, r.principal)
		})
		m = vp.And(m, verifField(s.Namespaces, s.NotNamespaces, func(v string) bool { return vp.And(okPeer, verifValue(v, ns)) }))
		m = vp.And(m, verifField(s.ServiceAccounts, s.NotServiceAccounts, func(v string) bool {
			// "<sa>" in the policy's own namespace, or "<ns>/<sa>"
			wantNs, wantSa, qualified := strings.Cut(v, "/")
			if !qualified {
				wantNs, wantSa = verifPolicyNamespace, v
			}
			_, _, _, sa := verifPeerParts(r.principal)
			return vp.And3(okPeer, ns == wantNs, sa == wantSa)
		}))
		m = vp.And(m, verifField(s.IpBlocks, s.NotIpBlocks, func(v string) bool { return verifIPBlock(v, r.srcIP) }))
		m = vp.And(m, verifField(s.RemoteIpBlocks, s.NotRemoteIpBlocks, func(v string) bool { return verifIPBlock(v, r.remoteIP) }))
		m = vp.And(m, verifField(s.RequestPrincipals, s.NotRequestPrincipals, func(v string) bool {
			return vp.And3(r.iss != "", r.sub != "", verifValue(v, r.iss+"/"+r.sub))
		}))
		from = vp.Or(from, m)
	}
	to := len(rule.To) == 0
	for _, t := range rule.To {
		o := t.Operation
		m := verifField(o.Methods, o.NotMethods, func(v string) bool { return verifValue(v, r.method) })
		m = vp.And(m, verifField(o.Paths, o.NotPaths, func(v string) bool { return verifValue(v, r.path) }))
		m = vp.And(m, verifField(o.Hosts, o.NotHosts, func(v string) bool { return verifValue(v, r.host) }))
		m = vp.And(m, verifField(o.Ports, o.NotPorts, func(v string) bool {
			n, err := strconv.Atoi(v)
			return err == nil && r.port == uint32(n)
		}))
		to = vp.Or(to, m)
	}
	return vp.And(from, to)
}

// ---------------------------------------------------------------- symbolic rule

// literals are drawn from small concrete menus (so the code under test runs concretely and fast); the REQUEST
// stays fully symbolic, so every request is covered for each policy of the menu
var verifLits = map[string][]string{
	"to.methods": {"GET", "PUT"}, "to.notMethods": {"GET", "PUT"},
	"to.paths": {"/a", "/ab"}, "to.notPaths": {"/a", "/ab"},
	"to.hosts": {"a.b", "b"}, "to.notHosts": {"a.b", "b"},
	"from.namespaces": {"a", "ab"}, "from.notNamespaces": {"a", "ab"},
}

func verifVal(field, name string, forms int) string {
	menu := verifLits[field]
	lit := menu[vp.Choice(name+".lit", len(menu))]
	switch vp.Choice(name+".form", forms) {
	case 0:
		return lit
	case 1:
		return lit + "*"
	case 2:
		return "*" + lit
	}
	return "*"
}

func verifVals(name string, forms int) []string {
	switch vp.Choice(name+".n", 3) {
	case 0:
		return nil
	case 1:
		return []string{verifVal(name, name+".0", forms)}
	}
	if vp.Tier() == 0 {
		// quick: the second value is the other literal of the menu, exact
		return []string{verifVal(name, name+".0", forms), verifLits[name][1]}
	}
	return []string{verifVal(name, name+".0", forms), verifVal(name, name+".1", 1)}
}

// to-operation with exactly one populated field family (or none)
func verifOperation() *authzpb.Operation {
	op := &authzpb.Operation{}
	switch vp.Choice("to.field", 5) {
	case 1:
		op.Methods, op.NotMethods = verifVals("to.methods", 4), verifVals("to.notMethods", 2)
	case 2:
		op.Paths, op.NotPaths = verifVals("to.paths", 4), verifVals("to.notPaths", 2)
	case 3:
		op.Hosts, op.NotHosts = verifVals("to.hosts", 4), verifVals("to.notHosts", 2)
	case 4:
		if vp.Choice("to.ports.n", 2) == 1 {
			op.Ports = []string{[]string{"80", "8080"}[vp.Choice("to.ports.v", 2)]}
		}
		if vp.Choice("to.notPorts.n", 2) == 1 {
			op.NotPorts = []string{"443"}
		}
	}
	return op
}

// from-source with exactly one populated field family (or none)
// the namespace of the policy (serviceAccounts without a namespace refer to it); one of the request's possible namespaces
const verifPolicyNamespace = "a"

func verifSource() *authzpb.Source {
	src := &authzpb.Source{}
	switch vp.Choice("from.field", 7) {
	case 4:
		src.ServiceAccounts = []string{[]string{"a", "b/a", "ab/b"}[vp.Choice("from.serviceAccounts.v", 3)]}
		if vp.Choice("from.notServiceAccounts.n", 2) == 1 {
			src.NotServiceAccounts = []string{"b"}
		}
	case 5:
		src.IpBlocks = []string{[]string{"10.1.2.3", "10.0.0.0/8", "0.0.0.0/0"}[vp.Choice("from.ipBlocks.v", 3)]}
		if vp.Choice("from.notIpBlocks.n", 2) == 1 {
			src.NotIpBlocks = []string{"10.1.0.0/16"}
		}
	case 6:
		src.RemoteIpBlocks = []string{[]string{"192.168.0.1", "192.168.0.0/24"}[vp.Choice("from.remoteIpBlocks.v", 2)]}
		if vp.Choice("from.notRemoteIpBlocks.n", 2) == 1 {
			src.NotRemoteIpBlocks = []string{"192.168.0.128/25"}
		}
	case 1:
		src.Principals, src.NotPrincipals = verifPrincipalVals("from.principals"), nil
		if vp.Choice("from.notPrincipals.n", 2) == 1 {
			src.NotPrincipals = []string{"td/ns/" + []string{"a", "b"}[vp.Choice("from.notPrincipals.ns", 2)] + "/sa/a"}
		}
	case 2:
		src.Namespaces, src.NotNamespaces = verifVals("from.namespaces", 4), verifVals("from.notNamespaces", 1)
	case 3:
		src.RequestPrincipals = []string{[]string{"i", "j"}[vp.Choice("from.reqPrincipal.iss", 2)] + "/" + []string{"u", "v"}[vp.Choice("from.reqPrincipal.sub", 2)]}
		if vp.Choice("from.notReqPrincipal.n", 2) == 1 {
			src.NotRequestPrincipals = []string{"i/*"}
		}
	}
	return src
}

// which part of the rule a harness explores: the generated permissions depend only on rule.To and the generated
// principals only on rule.From (Generate builds them independently and ANDs them), so the two halves are explored
// separately in full and together on a reduced menu.
const (
	verifToOnly = iota
	verifFromOnly
	verifBoth
)

func verifRule(part int) *authzpb.Rule {
	rule := &authzpb.Rule{}
	switch part {
	case verifToOnly:
		rule.To = []*authzpb.Rule_To{{Operation: verifOperation()}}
	case verifFromOnly:
		rule.From = []*authzpb.Rule_From{{Source: verifSource()}}
	default:
		ops := []*authzpb.Operation{
			{Methods: []string{"GET"}}, {NotPaths: []string{"/a*"}}, {Ports: []string{"80"}}, {Hosts: []string{"*b"}, NotHosts: []string{"a.b"}},
		}
		srcs := []*authzpb.Source{
			{Principals: []string{"td/ns/a/*"}}, {Namespaces: []string{"a"}}, {NotNamespaces: []string{"a*"}}, {RequestPrincipals: []string{"i/u"}},
			{NotPrincipals: []string{"td/ns/a/sa/a"}},
		}
		// two to-operations / two from-sources: OR within To and within From
		o1, s1 := vp.Choice("both.op1", len(ops)), vp.Choice("both.src1", len(srcs))
		rule.To = []*authzpb.Rule_To{{Operation: ops[o1]}}
		rule.From = []*authzpb.Rule_From{{Source: srcs[s1]}}
		if vp.Tier() > 0 {
			if o2 := vp.Choice("both.op2", len(ops)+1); o2 < len(ops) {
				rule.To = append(rule.To, &authzpb.Rule_To{Operation: ops[o2]})
			}
			if s2 := vp.Choice("both.src2", len(srcs)+1); s2 < len(srcs) {
				rule.From = append(rule.From, &authzpb.Rule_From{Source: srcs[s2]})
			}
		} else if vp.Choice("both.second", 2) == 1 {
			rule.To = append(rule.To, &authzpb.Rule_To{Operation: ops[(o1+1)%len(ops)]})
			rule.From = append(rule.From, &authzpb.Rule_From{Source: srcs[(s1+2)%len(srcs)]})
		}
	}
	return rule
}

func verifPrincipalVals(name string) []string {
	switch vp.Choice(name+".form", 4) {
	case 0:
		return []string{"td/ns/" + []string{"a", "b"}[vp.Choice(name+".ns", 2)] + "/sa/" + []string{"a", "b"}[vp.Choice(name+".sa", 2)]}
	case 1:
		return []string{"td/ns/" + []string{"a", "b"}[vp.Choice(name+".ns", 2)] + "/*"}
	case 2:
		return []string{"*/sa/" + []string{"a", "b"}[vp.Choice(name+".sa", 2)]}
	}
	return []string{"*"}
}

// F10 (open finding): a namespace suffix value "*x" becomes the regex .*/ns/.*x/.* whose wildcard crosses "/", so
// when x is a suffix of the fixed "/sa" segment ("*a", "*sa") every authenticated peer matches. Rules of that shape
// get their own label so that only this finding is suppressed.
func verifLabel(rule *authzpb.Rule, label string) string {
	for _, f := range rule.From {
		for _, v := range append(append([]string{}, f.Source.Namespaces...), f.Source.NotNamespaces...) {
			if len(v) > 1 && strings.HasPrefix(v, "*") && strings.HasSuffix("/sa", v[1:]) {
				return label + "/namespace-suffix-wildcard-crosses-the-sa-segment"
			}
		}
	}
	return label
}

// HTTP: the generated RBAC policy matches a request iff the rule does, for ALLOW and DENY alike.
func verifHTTPEquivalence(part int) {
	rule := verifRule(part)
	action := []rbacpb.RBAC_Action{rbacpb.RBAC_ALLOW, rbacpb.RBAC_DENY}[vp.Choice("action", 2)]
	m, err := New(types.NamespacedName{Namespace: verifPolicyNamespace, Name: "pol"}, rule)
	if err != nil {
		vp.Unreachable("rule-of-the-grammar-is-accepted")
	}
	pol, err := m.Generate(false, true, action)
	vp.Reach("generated")
	r := verifReq()
	want := verifRuleMatches(rule, r)
	if err != nil {
		vp.Unreachable("http-generation-never-fails-for-the-grammar")
	}
	vp.Assert(verifPolicyMatches(pol, r) == want, verifLabel(rule, "generated-policy-matches-iff-the-rule-does"))
}

func VerifC08HTTPTo()   { verifHTTPEquivalence(verifToOnly) }
func VerifC08HTTPFrom() { verifHTTPEquivalence(verifFromOnly) }
func VerifC08HTTPBoth() { verifHTTPEquivalence(verifBoth) }

// TCP: never more permissive than the policy: an ALLOW rule with an HTTP-only field matches nothing,
// a DENY rule keeps its remaining conditions.
func verifTCPFailClosed(part int) {
	rule := verifRule(part)
	action := []rbacpb.RBAC_Action{rbacpb.RBAC_ALLOW, rbacpb.RBAC_DENY}[vp.Choice("action", 2)]
	m, err := New(types.NamespacedName{Namespace: verifPolicyNamespace, Name: "pol"}, rule)
	if err != nil {
		vp.Unreachable("rule-of-the-grammar-is-accepted")
	}
	pol, gerr := m.Generate(true, true, action)
	vp.Reach("generated")
	r := verifReq()
	// the rule as a TCP connection can be judged: per to-operation / from-source, HTTP-only fields erased
	httpOnly := false
	erased := &authzpb.Rule{}
	for _, t := range rule.To {
		o := t.Operation
		if len(o.Methods)+len(o.NotMethods)+len(o.Paths)+len(o.NotPaths)+len(o.Hosts)+len(o.NotHosts) > 0 {
			httpOnly = true
		}
		erased.To = append(erased.To, &authzpb.Rule_To{Operation: &authzpb.Operation{Ports: o.Ports, NotPorts: o.NotPorts}})
	}
	for _, f := range rule.From {
		s := f.Source
		if len(s.RequestPrincipals)+len(s.NotRequestPrincipals) > 0 {
			httpOnly = true
		}
		erased.From = append(erased.From, &authzpb.Rule_From{Source: &authzpb.Source{Principals: s.Principals, NotPrincipals: s.NotPrincipals, Namespaces: s.Namespaces, NotNamespaces: s.NotNamespaces,
			ServiceAccounts: s.ServiceAccounts, NotServiceAccounts: s.NotServiceAccounts, IpBlocks: s.IpBlocks, NotIpBlocks: s.NotIpBlocks,
			RemoteIpBlocks: s.RemoteIpBlocks, NotRemoteIpBlocks: s.NotRemoteIpBlocks}})
	}
	if action == rbacpb.RBAC_ALLOW {
		if httpOnly {
			// fail closed: the rule cannot be enforced on TCP, so it must allow nothing
			vp.Assert(vp.Or(gerr != nil, pol == nil), "allow-rule-with-http-only-field-is-dropped-on-tcp")
			return
		}
		vp.Assert(gerr == nil, "tcp-expressible-allow-rule-is-generated")
		vp.Assert(verifPolicyMatches(pol, r) == verifRuleMatches(rule, r), verifLabel(rule, "tcp-allow-matches-iff-the-rule-does"))
		return
	}
	vp.Assert(gerr == nil, "deny-rule-is-always-generated-on-tcp")
	// never more permissive: whenever the remaining (TCP-checkable) conditions hold, the connection is denied
	vp.Assert(verifPolicyMatches(pol, r) == verifRuleMatches(erased, r), verifLabel(rule, "tcp-deny-enforces-the-remaining-conditions"))
}

func VerifC08TCPTo()   { verifTCPFailClosed(verifToOnly) }
func VerifC08TCPFrom() { verifTCPFailClosed(verifFromOnly) }
func VerifC08TCPBoth() { verifTCPFailClosed(verifBoth) }

// Mutant twin: "notPaths is ignored" must be refuted.
func VerifC08Twin() {
	rule := &authzpb.Rule{To: []*authzpb.Rule_To{{Operation: &authzpb.Operation{NotPaths: []string{"/a"}}}}}
	m, _ := New(types.NamespacedName{Namespace: verifPolicyNamespace, Name: "pol"}, rule)
	pol, _ := m.Generate(false, true, rbacpb.RBAC_ALLOW)
	r := verifReq()
	vp.Assert(verifPolicyMatches(pol, r), "twin")
}

// Trust domains: MigrateTrustDomain makes "cluster.local" (a pointer to the mesh's own trust domain) and every trust
// domain of the bundle (the mesh trust domain and its aliases) interchangeable in source principals; a foreign trust
// domain stays as written.
func VerifC08TrustDomain() {
	meshTD := []string{"cluster.local", "td"}[vp.Choice("meshTrustDomain", 2)]
	var aliases []string
	if vp.Choice("alias", 2) == 1 {
		aliases = []string{"td2"}
	}
	bundle := trustdomain.NewBundle(meshTD, aliases)
	written := []string{"cluster.local", "td", "td2", "xx"}[vp.Choice("policyTrustDomain", 4)]
	value := written + "/ns/a/sa/b"
	src := &authzpb.Source{Principals: []string{value}}
	negated := vp.Choice("negated", 2) == 1
	if negated {
		src = &authzpb.Source{NotPrincipals: []string{value}}
	}
	rule := &authzpb.Rule{From: []*authzpb.Rule_From{{Source: src}}}
	action := []rbacpb.RBAC_Action{rbacpb.RBAC_ALLOW, rbacpb.RBAC_DENY}[vp.Choice("action", 2)]
	m, err := New(types.NamespacedName{Namespace: verifPolicyNamespace, Name: "pol"}, rule)
	if err != nil {
		vp.Unreachable("rule-of-the-grammar-is-accepted")
	}
	m.MigrateTrustDomain(bundle)
	pol, err := m.Generate(false, true, action)
	if err != nil {
		vp.Unreachable("http-generation-never-fails-for-the-grammar")
	}
	vp.Reach("generated")
	// the peer: any short trust domain, or cluster.local
	peerTD := vp.StringIn("req.td", 3, "tdx2")
	if vp.Choice("req.clusterLocal", 2) == 1 {
		peerTD = "cluster.local"
	}
	ns, sa := vp.StringIn("req.ns", 1, "ab"), vp.StringIn("req.sa", 1, "ab")
	vp.Assume(vp.And3(peerTD != "", ns != "", sa != ""))
	r := &verifRequest{method: "GET", path: "/", host: "h", principal: "spiffe://" + peerTD + "/ns/" + ns + "/sa/" + sa}
	local := func(td string) bool {
		ok := td == meshTD
		for _, a := range aliases {
			ok = vp.Or(ok, td == a)
		}
		return ok
	}
	var tdMatches bool
	if written == "cluster.local" || written == meshTD || len(aliases) > 0 && written == aliases[0] {
		tdMatches = local(peerTD) // any of the mesh's own trust domains
	} else {
		tdMatches = peerTD == written
	}
	named := vp.And3(tdMatches, ns == "a", sa == "b")
	want := named
	if negated {
		want = vp.Not(named)
	}
	vp.Assert(verifPolicyMatches(pol, r) == want, "trust-domain-pointer-and-aliases-are-interchangeable")
}
