// gosym: SMT solver process management (text SMT-LIB2 over a pipe, one
// long-lived incremental process per worker).
package main

import (
	"bufio"
	"fmt"
	"io"
	"math"
	"os"
	"os/exec"
	"strconv"
	"strings"
	"time"
)

type SolverKind string

const (
	SolverCVC5  SolverKind = "cvc5"
	SolverZ3New SolverKind = "z3-new"
	SolverZ3    SolverKind = "z3"
)

type Result int

const (
	RSat Result = iota
	RUnsat
	RUnknown // includes timeout and solver errors: always inconclusive
)

func (r Result) String() string {
	return [...]string{"sat", "unsat", "unknown"}[r]
}

type Solver struct {
	kind      SolverKind
	timeoutMs int
	cmd       *exec.Cmd
	in        io.WriteCloser
	out       *bufio.Reader
	lines     chan string
	stack     []string        // asserted constraint texts, one push level each
	declared  map[string]Sort // global declarations
	log       io.Writer
	Queries   int
	Time      time.Duration
	Restarts  int
	lastErr   string
}

func NewSolver(kind SolverKind, timeoutMs int, logw io.Writer) *Solver {
	s := &Solver{kind: kind, timeoutMs: timeoutMs, log: logw}
	s.start()
	return s
}

func (s *Solver) start() {
	var cmd *exec.Cmd
	switch s.kind {
	case SolverCVC5:
		cmd = exec.Command("cvc5", "--incremental", "--lang=smt2", "--strings-exp", "--produce-models",
			fmt.Sprintf("--tlimit-per=%d", s.timeoutMs))
	case SolverZ3New:
		cmd = exec.Command("z3-new", "-in", fmt.Sprintf("-t:%d", s.timeoutMs))
	case SolverZ3:
		cmd = exec.Command("z3", "-in", fmt.Sprintf("-t:%d", s.timeoutMs))
	}
	in, err := cmd.StdinPipe()
	if err != nil {
		panic(err)
	}
	out, err := cmd.StdoutPipe()
	if err != nil {
		panic(err)
	}
	cmd.Stderr = cmd.Stdout
	if err := cmd.Start(); err != nil {
		panic(fmt.Sprintf("cannot start solver %s: %v", s.kind, err))
	}
	s.cmd, s.in, s.out = cmd, in, bufio.NewReaderSize(out, 1<<20)
	s.stack = nil
	s.declared = map[string]Sort{}
	lines := make(chan string, 64)
	s.lines = lines
	rd := s.out
	go func() {
		for {
			l, err := rd.ReadString('\n')
			if l != "" {
				lines <- strings.TrimRight(l, "\r\n")
			}
			if err != nil {
				close(lines)
				return
			}
		}
	}()
	s.send("(set-option :global-declarations true)")
	s.send("(set-option :produce-models true)")
	if s.kind == SolverCVC5 {
		s.send("(set-logic ALL)")
	}
}

func (s *Solver) Close() {
	if s.cmd != nil {
		s.in.Close()
		s.cmd.Process.Kill()
		s.cmd.Wait()
		s.cmd = nil
	}
}

func (s *Solver) restart() {
	s.Close()
	s.Restarts++
	s.start()
}

func (s *Solver) send(line string) {
	if s.log != nil {
		fmt.Fprintln(s.log, line)
	}
	io.WriteString(s.in, line)
	io.WriteString(s.in, "\n")
}

func (s *Solver) declareVarsOf(t *Term) {
	vars := map[string]Sort{}
	t.collectVars(vars, map[*Term]bool{})
	for n, so := range vars {
		if old, ok := s.declared[n]; ok {
			if old != so {
				panic(fmt.Sprintf("symbol %s declared with two sorts: %v and %v", n, old, so))
			}
			continue
		}
		s.declared[n] = so
		s.send(fmt.Sprintf("(declare-const |%s| %s)", n, so))
	}
	// uninterpreted helpers
	if strings.Contains(t.String(), "go_tolower") {
		if _, ok := s.declared["go_tolower"]; !ok {
			s.declared["go_tolower"] = sortStr
			if s.kind == SolverCVC5 {
				// cvc5 has ASCII case folding as a built-in (inputs are printable ASCII)
				s.send("(define-fun go_tolower ((x String)) String (str.to_lower x))")
			} else {
				s.send("(declare-fun go_tolower (String) String)")
			}
		}
	}
	if strings.Contains(t.String(), "go_hash64") {
		if _, ok := s.declared["go_hash64"]; !ok {
			s.declared["go_hash64"] = sortStr
			s.send("(declare-fun go_hash64 (String) (_ BitVec 64))")
		}
	}
	if strings.Contains(t.String(), "go_hashhex") {
		if _, ok := s.declared["go_hashhex"]; !ok {
			s.declared["go_hashhex"] = sortStr
			s.send("(declare-fun go_hashhex (String) String)")
		}
	}
	if strings.Contains(t.String(), "go_quotemeta") {
		if _, ok := s.declared["go_quotemeta"]; !ok {
			s.declared["go_quotemeta"] = sortStr
			s.send("(declare-fun go_quotemeta (String) String)")
		}
	}
	if strings.Contains(t.String(), "go_ufmatch") {
		if _, ok := s.declared["go_ufmatch"]; !ok {
			s.declared["go_ufmatch"] = sortBool
			s.send("(declare-fun go_ufmatch (String String) Bool)")
		}
	}
}

// Sync makes the solver's assertion stack equal to pc (sharing the common prefix).
func (s *Solver) Sync(pc []*Term) {
	i := 0
	for i < len(pc) && i < len(s.stack) && s.stack[i] == pc[i].String() {
		i++
	}
	if n := len(s.stack) - i; n > 0 {
		s.send(fmt.Sprintf("(pop %d)", n))
		s.stack = s.stack[:i]
	}
	for ; i < len(pc); i++ {
		s.declareVarsOf(pc[i])
		s.send("(push 1)")
		s.send("(assert " + pc[i].String() + ")")
		s.stack = append(s.stack, pc[i].String())
	}
}

// readResult reads until sat/unsat/unknown. Any "(error" line makes the verdict inconclusive.
func (s *Solver) readResult() (Result, bool) {
	sawErr := false
	deadline := time.After(time.Duration(s.timeoutMs)*time.Millisecond*2 + 5*time.Second)
	for {
		select {
		case l, ok := <-s.lines:
			if !ok {
				s.lastErr = "solver died"
				return RUnknown, false
			}
			if s.log != nil {
				fmt.Fprintln(s.log, "; <- "+l)
			}
			switch {
			case l == "sat":
				if sawErr {
					return RUnknown, true
				}
				return RSat, true
			case l == "unsat":
				if sawErr {
					return RUnknown, true
				}
				return RUnsat, true
			case l == "unknown" || l == "timeout":
				return RUnknown, true
			case strings.HasPrefix(l, "(error"):
				sawErr = true
				s.lastErr = l
				fmt.Fprintf(os.Stderr, "solver %s error: %s\n", s.kind, l)
			}
		case <-deadline:
			s.lastErr = "watchdog timeout"
			return RUnknown, false
		}
	}
}

// Check decides pc ∧ extra (extra may be nil). The solver stack is left at pc.
func (s *Solver) Check(pc []*Term, extra *Term) Result {
	t0 := time.Now()
	defer func() { s.Time += time.Since(t0); s.Queries++ }()
	s.Sync(pc)
	if extra != nil {
		s.declareVarsOf(extra)
		s.send("(push 1)")
		s.send("(assert " + extra.String() + ")")
	}
	s.send("(check-sat)")
	r, alive := s.readResult()
	if !alive {
		s.restart()
		return RUnknown
	}
	if extra != nil {
		s.send("(pop 1)")
	}
	return r
}

// CheckModel is Check, and on sat returns values for the requested variables.
func (s *Solver) CheckModel(pc []*Term, extra *Term, vars map[string]Sort) (Result, map[string]any) {
	t0 := time.Now()
	defer func() { s.Time += time.Since(t0); s.Queries++ }()
	s.Sync(pc)
	if extra != nil {
		s.declareVarsOf(extra)
		s.send("(push 1)")
		s.send("(assert " + extra.String() + ")")
	}
	s.send("(check-sat)")
	r, alive := s.readResult()
	if !alive {
		s.restart()
		return RUnknown, nil
	}
	var model map[string]any
	if r == RSat && len(vars) > 0 {
		var names []string
		for n := range vars {
			if _, ok := s.declared[n]; ok {
				names = append(names, n)
			}
		}
		model = map[string]any{}
		if len(names) > 0 {
			var b strings.Builder
			b.WriteString("(get-value (")
			for _, n := range names {
				b.WriteString("|" + n + "| ")
			}
			b.WriteString("))")
			s.send(b.String())
			txt, ok := s.readSexp()
			if !ok {
				s.restart()
				return RUnknown, nil
			}
			parseModel(txt, vars, model)
		}
	}
	if extra != nil {
		s.send("(pop 1)")
	}
	return r, model
}

// readSexp reads lines until parentheses balance.
func (s *Solver) readSexp() (string, bool) {
	var b strings.Builder
	depth := 0
	started := false
	deadline := time.After(30 * time.Second)
	for {
		select {
		case l, ok := <-s.lines:
			if !ok {
				return "", false
			}
			if s.log != nil {
				fmt.Fprintln(s.log, "; <- "+l)
			}
			inStr := false
			for i := 0; i < len(l); i++ {
				c := l[i]
				if c == '"' {
					inStr = !inStr
				}
				if inStr {
					continue
				}
				if c == '(' {
					depth++
					started = true
				} else if c == ')' {
					depth--
				}
			}
			b.WriteString(l)
			b.WriteByte('\n')
			if started && depth <= 0 {
				return b.String(), true
			}
		case <-deadline:
			return "", false
		}
	}
}

// ---------------------------------------------------------------- s-expressions

type sexp struct {
	atom string
	list []*sexp
	isAtom bool
}

func parseSexp(s string) *sexp {
	pos := 0
	var parse func() *sexp
	skip := func() {
		for pos < len(s) && (s[pos] == ' ' || s[pos] == '\n' || s[pos] == '\t' || s[pos] == '\r') {
			pos++
		}
	}
	parse = func() *sexp {
		skip()
		if pos >= len(s) {
			return nil
		}
		if s[pos] == '(' {
			pos++
			n := &sexp{}
			for {
				skip()
				if pos >= len(s) {
					return n
				}
				if s[pos] == ')' {
					pos++
					return n
				}
				n.list = append(n.list, parse())
			}
		}
		start := pos
		if s[pos] == '"' {
			pos++
			for pos < len(s) {
				if s[pos] == '"' {
					if pos+1 < len(s) && s[pos+1] == '"' {
						pos += 2
						continue
					}
					pos++
					break
				}
				pos++
			}
			return &sexp{atom: s[start:pos], isAtom: true}
		}
		if s[pos] == '|' {
			pos++
			for pos < len(s) && s[pos] != '|' {
				pos++
			}
			pos++
			return &sexp{atom: s[start+1 : pos-1], isAtom: true}
		}
		for pos < len(s) && !strings.ContainsRune(" \n\t\r()", rune(s[pos])) {
			pos++
		}
		return &sexp{atom: s[start:pos], isAtom: true}
	}
	return parse()
}

func unescapeSMT(lit string) string {
	// lit includes the surrounding quotes
	body := lit[1 : len(lit)-1]
	body = strings.ReplaceAll(body, `""`, `"`)
	var b strings.Builder
	for i := 0; i < len(body); i++ {
		if body[i] == '\\' && i+1 < len(body) && body[i+1] == 'u' {
			// \u{X..} or \uXXXX
			j := i + 2
			if j < len(body) && body[j] == '{' {
				k := strings.IndexByte(body[j:], '}')
				if k > 0 {
					if v, err := strconv.ParseUint(body[j+1:j+k], 16, 32); err == nil {
						if v < 256 {
							b.WriteByte(byte(v))
						} else {
							b.WriteRune(rune(v))
						}
						i = j + k
						continue
					}
				}
			} else if j+4 <= len(body) {
				if v, err := strconv.ParseUint(body[j:j+4], 16, 32); err == nil {
					if v < 256 {
						b.WriteByte(byte(v))
					} else {
						b.WriteRune(rune(v))
					}
					i = j + 3
					continue
				}
			}
		}
		if body[i] == '\\' && i+1 < len(body) && body[i+1] == 'x' && i+3 < len(body) {
			if v, err := strconv.ParseUint(body[i+2:i+4], 16, 8); err == nil {
				b.WriteByte(byte(v))
				i += 3
				continue
			}
		}
		b.WriteByte(body[i])
	}
	return b.String()
}

func sexpInt(e *sexp) (int64, bool) {
	if e.isAtom {
		v, err := strconv.ParseInt(e.atom, 10, 64)
		return v, err == nil
	}
	if len(e.list) == 2 && e.list[0].isAtom && e.list[0].atom == "-" {
		v, ok := sexpInt(e.list[1])
		return -v, ok
	}
	return 0, false
}

func parseBits(a string) (uint64, bool) {
	if strings.HasPrefix(a, "#x") {
		v, err := strconv.ParseUint(a[2:], 16, 64)
		return v, err == nil
	}
	if strings.HasPrefix(a, "#b") {
		v, err := strconv.ParseUint(a[2:], 2, 64)
		return v, err == nil
	}
	return 0, false
}

// parseModel fills model with Go values: bool, uint64 (BV payload), int64, string, float64.
func parseModel(txt string, vars map[string]Sort, model map[string]any) {
	root := parseSexp(txt)
	if root == nil {
		return
	}
	for _, pair := range root.list {
		if pair == nil || len(pair.list) != 2 || !pair.list[0].isAtom {
			continue
		}
		name := pair.list[0].atom
		val := pair.list[1]
		so, ok := vars[name]
		if !ok {
			continue
		}
		switch so.K {
		case SBool:
			model[name] = val.isAtom && val.atom == "true"
		case SBV:
			if val.isAtom {
				if v, ok := parseBits(val.atom); ok {
					model[name] = v
				}
			} else if len(val.list) == 3 && val.list[0].isAtom && val.list[0].atom == "_" {
				// (_ bv123 64)
				if v, err := strconv.ParseUint(strings.TrimPrefix(val.list[1].atom, "bv"), 10, 64); err == nil {
					model[name] = v
				}
			}
		case SInt:
			if v, ok := sexpInt(val); ok {
				model[name] = v
			}
		case SStr:
			if val.isAtom && strings.HasPrefix(val.atom, `"`) {
				model[name] = unescapeSMT(val.atom)
			}
		case SFP:
			if !val.isAtom && len(val.list) == 4 && val.list[0].atom == "fp" {
				sg, _ := parseBits(val.list[1].atom)
				ex, _ := parseBits(val.list[2].atom)
				mn, _ := parseBits(val.list[3].atom)
				model[name] = math.Float64frombits(sg<<63 | ex<<52 | mn)
			} else if !val.isAtom && len(val.list) >= 2 && val.list[0].atom == "_" {
				switch val.list[1].atom {
				case "+zero":
					model[name] = 0.0
				case "-zero":
					model[name] = math.Copysign(0, -1)
				case "+oo":
					model[name] = math.Inf(1)
				case "-oo":
					model[name] = math.Inf(-1)
				case "NaN":
					model[name] = math.NaN()
				}
			}
		}
	}
}
