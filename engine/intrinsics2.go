// gosym: intrinsics — sync, atomic, time, sort, misc runtime.
package main

import (
	"encoding/hex"
	"fmt"
	"hash/fnv"
	"go/types"
	"sort"
	"strings"

	"golang.org/x/tools/go/ssa"
)

type mutexState struct {
	locked  bool
	readers int
	owner   *gor
}

func getMutex(fr *frame, recv value) *mutexState {
	side := needPathOrInit(fr)
	key, ok := recv.(*value)
	if !ok {
		panic(engineError(fmt.Sprintf("mutex receiver is %T", recv)))
	}
	if key == nil {
		panic(runtimePanic("invalid memory address or nil pointer dereference (nil mutex)"))
	}
	type mk struct{ p *value }
	if s, ok := side[mk{key}]; ok {
		return s.(*mutexState)
	}
	s := &mutexState{}
	side[mk{key}] = s
	return s
}

type onceState struct{ done bool }

func initSyncIntrinsics() {
	lock := func(fr *frame, a []value) (value, bool) {
		mu := getMutex(fr, a[0])
		visibleOp(fr, "lock")
		blockUntil(fr, "mutex", func() bool { return !mu.locked && mu.readers == 0 })
		mu.locked = true
		mu.owner = fr.g
		return nil, true
	}
	unlock := func(fr *frame, a []value) (value, bool) {
		mu := getMutex(fr, a[0])
		if !mu.locked {
			panic(targetPanic{v: iface{t: rtErrType, v: "fatal error: sync: unlock of unlocked mutex"}})
		}
		mu.locked = false
		mu.owner = nil
		visibleOp(fr, "unlock")
		return nil, true
	}
	rlock := func(fr *frame, a []value) (value, bool) {
		mu := getMutex(fr, a[0])
		visibleOp(fr, "rlock")
		blockUntil(fr, "rwmutex", func() bool { return !mu.locked })
		mu.readers++
		return nil, true
	}
	runlock := func(fr *frame, a []value) (value, bool) {
		mu := getMutex(fr, a[0])
		if mu.readers <= 0 {
			panic(targetPanic{v: iface{t: rtErrType, v: "fatal error: sync: RUnlock of unlocked RWMutex"}})
		}
		mu.readers--
		visibleOp(fr, "runlock")
		return nil, true
	}
	trylock := func(fr *frame, a []value) (value, bool) {
		mu := getMutex(fr, a[0])
		visibleOp(fr, "trylock")
		if mu.locked || mu.readers > 0 {
			return false, true
		}
		mu.locked = true
		mu.owner = fr.g
		return true, true
	}
	reg("(*sync.Mutex).Lock", lock)
	reg("(*sync.Mutex).Unlock", unlock)
	reg("(*sync.Mutex).TryLock", trylock)
	reg("(*sync.RWMutex).Lock", lock)
	reg("(*sync.RWMutex).Unlock", unlock)
	reg("(*sync.RWMutex).RLock", rlock)
	reg("(*sync.RWMutex).RUnlock", runlock)
	reg("(*sync.RWMutex).TryLock", trylock)

	reg("(*sync.Once).Do", func(fr *frame, a []value) (value, bool) {
		side := needPathOrInit(fr)
		type ok struct{ p *value }
		key := ok{a[0].(*value)}
		if s, found := side[key]; found && s.(*onceState).done {
			return nil, true
		}
		st := &onceState{done: true}
		side[key] = st
		call(fr.i, fr, 0, a[1], nil)
		return nil, true
	})

	// protobuf enum names come from reflection descriptors (not initialised here): an enum prints as its number
	reg("(google.golang.org/protobuf/internal/impl.Export).EnumStringOf", func(fr *frame, a []value) (value, bool) {
		n := a[len(a)-1]
		if t, ok := n.(*Term); ok {
			_ = t
			return nil, false
		}
		return fmt.Sprintf("ENUM_%d", asInt64(n)), true
	})

	// sync.Pool: nothing is ever pooled (Get always builds a new object, Put drops it)
	reg("(*sync.Pool).Get", func(fr *frame, a []value) (value, bool) {
		st, ok := (*a[0].(*value)).(structure)
		if !ok || len(st) == 0 {
			return nil, false
		}
		newFn := st[len(st)-1]
		switch f := newFn.(type) {
		case nil:
			return iface{}, true
		case *ssa.Function:
			if f == nil {
				return iface{}, true
			}
		case *closure:
			if f == nil {
				return iface{}, true
			}
		}
		return call(fr.i, fr, 0, newFn, nil), true
	})
	reg("(*sync.Pool).Put", func(fr *frame, a []value) (value, bool) { return nil, true })

	// sync.Cond: waiters are parked until signalled; L is released while waiting
	type condWaiter struct{ signalled bool }
	type condState struct{ waiters []*condWaiter }
	getCond := func(fr *frame, recv value) *condState {
		side := needPathOrInit(fr)
		type ck struct{ p *value }
		key := ck{recv.(*value)}
		if s, ok := side[key]; ok {
			return s.(*condState)
		}
		s := &condState{}
		side[key] = s
		return s
	}
	condL := func(fr *frame, recv value) iface {
		p := recv.(*value)
		if p == nil {
			panic(runtimePanic("invalid memory address or nil pointer dereference (nil *sync.Cond)"))
		}
		st := (*p).(structure)
		for _, f := range st {
			if it, ok := f.(iface); ok {
				return it
			}
		}
		panic(engineError("sync.Cond without L"))
	}
	invokeLocker := func(fr *frame, l iface, name string) {
		if l.t == nil {
			panic(runtimePanic("nil Locker in sync.Cond"))
		}
		ms := fr.i.prog.MethodSets.MethodSet(l.t)
		for i := 0; i < ms.Len(); i++ {
			if ms.At(i).Obj().Name() == name {
				call(fr.i, fr, 0, fr.i.prog.MethodValue(ms.At(i)), []value{l.v})
				return
			}
		}
		panic(engineError("Locker without " + name))
	}
	reg("(*sync.Cond).Wait", func(fr *frame, a []value) (value, bool) {
		cs := getCond(fr, a[0])
		w := &condWaiter{}
		cs.waiters = append(cs.waiters, w)
		l := condL(fr, a[0])
		invokeLocker(fr, l, "Unlock")
		blockUntil(fr, "cond.Wait", func() bool { return w.signalled })
		invokeLocker(fr, l, "Lock")
		return nil, true
	})
	reg("(*sync.Cond).Signal", func(fr *frame, a []value) (value, bool) {
		cs := getCond(fr, a[0])
		for i, w := range cs.waiters {
			if !w.signalled {
				w.signalled = true
				cs.waiters = append(cs.waiters[:i:i], cs.waiters[i+1:]...)
				break
			}
		}
		visibleOp(fr, "cond.Signal")
		return nil, true
	})
	reg("(*sync.Cond).Broadcast", func(fr *frame, a []value) (value, bool) {
		cs := getCond(fr, a[0])
		for _, w := range cs.waiters {
			w.signalled = true
		}
		cs.waiters = nil
		visibleOp(fr, "cond.Broadcast")
		return nil, true
	})

	// sync.WaitGroup
	type wgState struct{ n int64 }
	getWG := func(fr *frame, recv value) *wgState {
		side := needPathOrInit(fr)
		type wk struct{ p *value }
		key := wk{recv.(*value)}
		if s, ok := side[key]; ok {
			return s.(*wgState)
		}
		s := &wgState{}
		side[key] = s
		return s
	}
	reg("(*sync.WaitGroup).Add", func(fr *frame, a []value) (value, bool) {
		getWG(fr, a[0]).n += asInt64(a[1])
		visibleOp(fr, "wg.add")
		return nil, true
	})
	reg("(*sync.WaitGroup).Done", func(fr *frame, a []value) (value, bool) {
		getWG(fr, a[0]).n--
		visibleOp(fr, "wg.done")
		return nil, true
	})
	reg("(*sync.WaitGroup).Wait", func(fr *frame, a []value) (value, bool) {
		wg := getWG(fr, a[0])
		blockUntil(fr, "waitgroup", func() bool { return wg.n <= 0 })
		return nil, true
	})

	// sync.Map as an ordinary map in a side table
	getSM := func(fr *frame, recv value) *mapV {
		side := needPathOrInit(fr)
		type sk struct{ p *value }
		key := sk{recv.(*value)}
		if s, ok := side[key]; ok {
			return s.(*mapV)
		}
		s := makeMap(types.NewInterfaceType(nil, nil))
		side[key] = s
		return s
	}
	reg("(*sync.Map).Load", func(fr *frame, a []value) (value, bool) {
		visibleOp(fr, "syncmap")
		if e := getSM(fr, a[0]).find(fr, a[1]); e != nil {
			return tuple{e.val, true}, true
		}
		return tuple{iface{}, false}, true
	})
	reg("(*sync.Map).Store", func(fr *frame, a []value) (value, bool) {
		visibleOp(fr, "syncmap")
		getSM(fr, a[0]).insert(fr, a[1], a[2])
		return nil, true
	})
	reg("(*sync.Map).Delete", func(fr *frame, a []value) (value, bool) {
		visibleOp(fr, "syncmap")
		getSM(fr, a[0]).remove(fr, a[1])
		return nil, true
	})
	reg("(*sync.Map).LoadOrStore", func(fr *frame, a []value) (value, bool) {
		visibleOp(fr, "syncmap")
		m := getSM(fr, a[0])
		if e := m.find(fr, a[1]); e != nil {
			return tuple{e.val, true}, true
		}
		m.insert(fr, a[1], a[2])
		return tuple{a[2], false}, true
	})
	reg("(*sync.Map).LoadAndDelete", func(fr *frame, a []value) (value, bool) {
		visibleOp(fr, "syncmap")
		m := getSM(fr, a[0])
		if e := m.find(fr, a[1]); e != nil {
			v := e.val
			m.remove(fr, a[1])
			return tuple{v, true}, true
		}
		return tuple{iface{}, false}, true
	})
	reg("(*sync.Map).Range", func(fr *frame, a []value) (value, bool) {
		m := getSM(fr, a[0])
		for _, e := range append([]*mapEntry(nil), m.entries...) {
			if e.deleted {
				continue
			}
			if !fr.decideValue(call(fr.i, fr, 0, a[1], []value{e.key, e.val})) {
				break
			}
		}
		return nil, true
	})

	// sync/atomic functions on cells
	atomicLoad := func(fr *frame, a []value) (value, bool) {
		visibleOp(fr, "atomic")
		p := a[0].(*value)
		if p == nil {
			panic(runtimePanic("invalid memory address or nil pointer dereference"))
		}
		return *p, true
	}
	atomicStore := func(fr *frame, a []value) (value, bool) {
		visibleOp(fr, "atomic")
		fr.i.rawStore(a[0].(*value), a[1])
		return nil, true
	}
	atomicSwap := func(fr *frame, a []value) (value, bool) {
		visibleOp(fr, "atomic")
		p := a[0].(*value)
		old := *p
		fr.i.rawStore(p, a[1])
		return old, true
	}
	for _, ty := range []string{"Int32", "Int64", "Uint32", "Uint64", "Uintptr", "Pointer"} {
		reg("sync/atomic.Load"+ty, atomicLoad)
		reg("sync/atomic.Store"+ty, atomicStore)
		reg("sync/atomic.Swap"+ty, atomicSwap)
		ty := ty
		reg("sync/atomic.CompareAndSwap"+ty, func(fr *frame, a []value) (value, bool) {
			visibleOp(fr, "atomic")
			p := a[0].(*value)
			var eq value
			if ty == "Pointer" {
				eq = equals(types.Typ[types.UnsafePointer], *p, a[1])
			} else {
				eq = equals(types.Typ[types.Int64], *p, a[1])
			}
			if fr.decideValue(eq) {
				fr.i.rawStore(p, a[2])
				return true, true
			}
			return false, true
		})
		if ty != "Pointer" {
			reg("sync/atomic.Add"+ty, func(fr *frame, a []value) (value, bool) {
				visibleOp(fr, "atomic")
				p := a[0].(*value)
				var t types.Type
				switch ty {
				case "Int32":
					t = types.Typ[types.Int32]
				case "Int64":
					t = types.Typ[types.Int64]
				case "Uint32":
					t = types.Typ[types.Uint32]
				case "Uint64":
					t = types.Typ[types.Uint64]
				default:
					t = types.Typ[types.Uintptr]
				}
				nv := fr.binop(tokenADD, t, t, *p, a[1])
				fr.i.rawStore(p, nv)
				return nv, true
			})
		}
	}
	// atomic.Value
	reg("(*sync/atomic.Value).Load", func(fr *frame, a []value) (value, bool) {
		visibleOp(fr, "atomic")
		side := needPathOrInit(fr)
		type ak struct{ p *value }
		if v, ok := side[ak{a[0].(*value)}]; ok {
			return v, true
		}
		return iface{}, true
	})
	reg("(*sync/atomic.Value).Store", func(fr *frame, a []value) (value, bool) {
		visibleOp(fr, "atomic")
		side := needPathOrInit(fr)
		type ak struct{ p *value }
		side[ak{a[0].(*value)}] = a[1]
		return nil, true
	})
	// atomic.Pointer[T]: field 2 ("v") holds an unsafe.Pointer; keep the typed pointer directly.
	ptrCell := func(recv value) *value {
		p := recv.(*value)
		if p == nil {
			panic(runtimePanic("invalid memory address or nil pointer dereference"))
		}
		s := (*p).(structure)
		return &s[len(s)-1]
	}
	reg("(*sync/atomic.Pointer).Load", func(fr *frame, a []value) (value, bool) {
		visibleOp(fr, "atomic")
		c := ptrCell(a[0])
		if up, ok := (*c).(unsafePtr); ok {
			if up.p == nil {
				return (*value)(nil), true
			}
			return up.p, true
		}
		return *c, true
	})
	reg("(*sync/atomic.Pointer).Store", func(fr *frame, a []value) (value, bool) {
		visibleOp(fr, "atomic")
		fr.i.rawStore(ptrCell(a[0]), a[1])
		return nil, true
	})
	reg("(*sync/atomic.Pointer).Swap", func(fr *frame, a []value) (value, bool) {
		visibleOp(fr, "atomic")
		c := ptrCell(a[0])
		old := *c
		if up, ok := old.(unsafePtr); ok {
			old = up.p
		}
		fr.i.rawStore(c, a[1])
		return old, true
	})
	reg("(*sync/atomic.Pointer).CompareAndSwap", func(fr *frame, a []value) (value, bool) {
		visibleOp(fr, "atomic")
		c := ptrCell(a[0])
		cur := *c
		if up, ok := cur.(unsafePtr); ok {
			cur = up.p
		}
		if cur.(*value) == a[1].(*value) {
			fr.i.rawStore(c, a[2])
			return true, true
		}
		return false, true
	})
}

// ------------------------------------------------------------------ misc

func initMiscIntrinsics() {
	// sort.Slice / sort.SliceStable via the less closure (comparisons may fork)
	sortSlice := func(fr *frame, a []value) (value, bool) {
		it, ok := a[0].(iface)
		if !ok {
			panic(engineError("sort.Slice on non-interface"))
		}
		xs, ok := it.v.([]value)
		if !ok {
			panic(engineError(fmt.Sprintf("sort.Slice on %T", it.v)))
		}
		less := a[1]
		// insertion sort (stable): performs the swaps in place so the closure's captured slice is updated
		for i := 1; i < len(xs); i++ {
			for j := i; j > 0; j-- {
				if !fr.decideValue(call(fr.i, fr, 0, less, []value{j, j - 1})) {
					break
				}
				fr.i.jlog(undoRec{addr: &xs[j], old: xs[j]}, undoRec{addr: &xs[j-1], old: xs[j-1]})
				xs[j], xs[j-1] = xs[j-1], xs[j]
			}
		}
		return nil, true
	}
	reg("sort.Slice", sortSlice)
	reg("sort.SliceStable", sortSlice)
	reg("sort.Strings", func(fr *frame, a []value) (value, bool) {
		xs := a[0].([]value)
		if !anySym(xs) {
			ss := make([]string, len(xs))
			for i, x := range xs {
				ss[i] = x.(string)
			}
			sort.Strings(ss)
			for i := range xs {
				fr.i.jlog(undoRec{addr: &xs[i], old: xs[i]})
				xs[i] = ss[i]
			}
			return nil, true
		}
		for i := 1; i < len(xs); i++ {
			for j := i; j > 0; j-- {
				if !fr.decideValue(boolValue(strLt(lift(xs[j]), lift(xs[j-1])))) {
					break
				}
				fr.i.jlog(undoRec{addr: &xs[j], old: xs[j]}, undoRec{addr: &xs[j-1], old: xs[j-1]})
				xs[j], xs[j-1] = xs[j-1], xs[j]
			}
		}
		return nil, true
	})

	// istio.io/istio/pkg/util/hash: the digest is abstracted to its input stream.
	// Concrete content hashes with FNV-64a (any fixed function is a sound stand-in unless the code
	// depends on xxhash's numeric values); symbolic content hashes with an uninterpreted function.
	type hstate struct{ s *Term }
	getH := func(fr *frame, recv value) *hstate {
		side := needPathOrInit(fr)
		type hk struct{ p *value }
		key := hk{recv.(*value)}
		if s, ok := side[key]; ok {
			return s.(*hstate)
		}
		s := &hstate{s: mkStr("")}
		side[key] = s
		return s
	}
	const hp = "(*istio.io/istio/pkg/util/hash.instance)."
	reg(hp+"WriteString", func(fr *frame, a []value) (value, bool) {
		checkPoison("hash.WriteString", a[1])
		h := getH(fr, a[0])
		h.s = strConcat(h.s, lift(a[1]))
		return fr.intV(strLen(lift(a[1]))), true
	})
	reg(hp+"Write", func(fr *frame, a []value) (value, bool) {
		h := getH(fr, a[0])
		bs := a[1].([]value)
		h.s = strConcat(h.s, lift(bytesToStringTerm(bs)))
		return len(bs), true
	})
	reg(hp+"Reset", func(fr *frame, a []value) (value, bool) { getH(fr, a[0]).s = mkStr(""); return nil, true })
	reg(hp+"Sum64", func(fr *frame, a []value) (value, bool) {
		h := getH(fr, a[0])
		if h.s.IsConst() {
			f := fnv.New64a()
			f.Write([]byte(h.s.Str))
			return f.Sum64(), true
		}
		return mkApp("go_hash64", bvSort(64), h.s), true
	})
	reg(hp+"Sum", func(fr *frame, a []value) (value, bool) {
		h := getH(fr, a[0])
		if h.s.IsConst() {
			f := fnv.New64a()
			f.Write([]byte(h.s.Str))
			return hex.EncodeToString(f.Sum(nil)), true
		}
		return mkApp("go_hashhex", sortStr, h.s), true
	})

	// log levels: logging is stubbed, so no level is enabled
	for _, lvl := range []string{"Debug", "Info", "Warn", "Error"} {
		reg("(*istio.io/istio/pkg/log.Scope)."+lvl+"Enabled", func(fr *frame, a []value) (value, bool) { return false, true })
	}
	// runtime odds and ends
	nop := func(fr *frame, a []value) (value, bool) { return nil, true }
	for _, n := range []string{"runtime.GC", "runtime.Gosched", "runtime.KeepAlive", "runtime.SetFinalizer", "time.Sleep",
		"runtime.LockOSThread", "runtime.UnlockOSThread", "runtime/debug.SetGCPercent"} {
		reg(n, nop)
	}
	reg("runtime.GOMAXPROCS", func(fr *frame, a []value) (value, bool) { return 16, true })
	reg("runtime.NumCPU", func(fr *frame, a []value) (value, bool) { return 16, true })
	reg("os.Getenv", func(fr *frame, a []value) (value, bool) { return "", true })
	reg("os.LookupEnv", func(fr *frame, a []value) (value, bool) { return tuple{"", false}, true })
	reg("syscall.Getenv", func(fr *frame, a []value) (value, bool) { return tuple{"", false}, true })

	// math/rand(/v2): arbitrary values within the documented range
	randFloat := func(fr *frame, a []value) (value, bool) {
		p := needPath(fr)
		f := p.freshVar("rand_f", sortFP)
		p.assume(fpCmp("fp.geq", f, mkFP(0)))
		p.assume(fpCmp("fp.lt", f, mkFP(1)))
		p.noteRand(f)
		return f, true
	}
	randIntN := func(fr *frame, a []value) (value, bool) {
		p := needPath(fr)
		n := lift(a[0])
		v := p.freshVar("rand_i", bvSort(64))
		p.assume(bvCmp("bvsge", v, mkBV(0, 64)))
		if n.S.K == SInt {
			n = intToBV(n, 64)
		}
		p.assume(bvCmp("bvslt", v, bvResize(n, 64, true)))
		p.noteRand(v)
		return concretize(v, types.Typ[types.Int]), true
	}
	for _, pkg := range []string{"math/rand/v2", "math/rand"} {
		reg(pkg+".Float64", randFloat)
		reg(pkg+".IntN", randIntN)
		reg(pkg+".Intn", randIntN)
		reg(pkg+".Int64N", randIntN)
		reg(pkg+".Int63n", randIntN)
	}

	// unique.Make[T]: canonicalisation is the identity in the boxed model; Handle{value *T}
	reg("unique.Make", func(fr *frame, a []value) (value, bool) {
		cell := new(value)
		*cell = copyVal(a[0])
		return structure{cell}, true
	})
	reg("(unique.Handle).Value", func(fr *frame, a []value) (value, bool) {
		h := a[0].(structure)
		return copyVal(*(h[0].(*value))), true
	})

	// reflect: only TypeOf of concrete values and DeepEqual on simple data
	reg("reflect.TypeOf", func(fr *frame, a []value) (value, bool) {
		it := a[0].(iface)
		return iface{t: rtypeT, v: rtype{t: it.t}}, true
	})
	// maps.clone is implemented in the runtime (linkname): shallow copy of a map held in an interface
	reg("maps.clone", func(fr *frame, a []value) (value, bool) {
		it, ok := a[0].(iface)
		if !ok {
			return nil, false
		}
		m, ok := it.v.(*mapV)
		if !ok {
			return nil, false
		}
		if m == nil {
			return it, true
		}
		c := makeMap(m.keyType)
		for _, e := range m.entries {
			if e.deleted {
				continue
			}
			ne := &mapEntry{key: e.key, val: copyVal(e.val)}
			c.entries = append(c.entries, ne)
			if ck, conc := concreteKey(e.key); conc {
				c.index[ck] = ne
			} else {
				c.nsym++
			}
		}
		return iface{t: it.t, v: c}, true
	})
	reg("reflect.DeepEqual", func(fr *frame, a []value) (value, bool) {
		return deepEqual(fr, a[0], a[1], 0), true
	})
}

var rtypeT types.Type = types.NewNamed(types.NewTypeName(0, nil, "rtype", nil), types.Typ[types.Int], nil)

const tokenADD = 12 // token.ADD

// deepEqual is a structural equality good enough for slices/maps/structs of scalars.
func deepEqual(fr *frame, x, y value, depth int) value {
	if depth > 50 {
		panic(engineError("reflect.DeepEqual too deep"))
	}
	switch a := x.(type) {
	case iface:
		b, ok := y.(iface)
		if !ok {
			return false
		}
		if !sameType(a.t, b.t) {
			return false
		}
		if a.t == nil {
			return true
		}
		return deepEqual(fr, a.v, b.v, depth+1)
	case []value:
		b, ok := y.([]value)
		if !ok || len(a) != len(b) || (a == nil) != (b == nil) {
			return false
		}
		acc := termTrue
		for i := range a {
			r := deepEqual(fr, a[i], b[i], depth+1)
			acc = tAnd(acc, asBoolTerm(r))
		}
		return boolValue(acc)
	case structure:
		b := y.(structure)
		acc := termTrue
		for i := range a {
			acc = tAnd(acc, asBoolTerm(deepEqual(fr, a[i], b[i], depth+1)))
		}
		return boolValue(acc)
	case array:
		b := y.(array)
		acc := termTrue
		for i := range a {
			acc = tAnd(acc, asBoolTerm(deepEqual(fr, a[i], b[i], depth+1)))
		}
		return boolValue(acc)
	case *value:
		b := y.(*value)
		if a == nil || b == nil {
			return a == b
		}
		if a == b {
			return true
		}
		return deepEqual(fr, *a, *b, depth+1)
	case *mapV:
		b := y.(*mapV)
		if (a == nil) != (b == nil) || a.length() != b.length() {
			return false
		}
		acc := termTrue
		for _, e := range a.entries {
			o := b.find(fr, e.key)
			if o == nil {
				return false
			}
			acc = tAnd(acc, asBoolTerm(deepEqual(fr, e.val, o.val, depth+1)))
		}
		return boolValue(acc)
	case *Term:
		return boolValue(symEq(a, lift(y)))
	case poison:
		panic(engineError("DeepEqual on poison: " + a.why))
	case *ssa.Function, *closure:
		return false
	}
	if isSym(y) {
		return boolValue(symEq(lift(x), lift(y)))
	}
	return x == y
}

// describeFn gives a short position string for evidence.
func describeFn(prog *ssa.Program, fn *ssa.Function) (string, string) {
	pos := prog.Fset.Position(fn.Pos())
	f := pos.Filename
	if strings.HasPrefix(f, repoRoot+"/") {
		f = f[len(repoRoot)+1:]
	}
	return fn.String(), f
}
