// gosym: intrinsics — harness primitives (package vp), symbolic string library,
// sync, atomic, fmt, errors.
package main

import (
	"fmt"
	"go/types"
	"strconv"
	"strings"

	"golang.org/x/tools/go/ssa"
)

type externalFn func(fr *frame, args []value) (value, bool)

// Key strings are from Function.String() (for generics: the origin's).
var externals = map[string]externalFn{}

const vpPkg = "istio.io/istio/pkg/zzvp"

func reg(name string, f externalFn) { externals[name] = f }

func argStr(v value) string {
	s, ok := v.(string)
	if !ok {
		panic(engineError(fmt.Sprintf("harness primitive needs a concrete string argument, got %T", v)))
	}
	return s
}

func needPath(fr *frame) *pathState {
	if fr.i.path == nil {
		panic(engineError("harness primitive used outside a path"))
	}
	return fr.i.path
}

func printableRe(alphabet string) *Term {
	if alphabet == "" {
		return reStar(reRange(' ', '~'))
	}
	var alts []*Term
	for i := 0; i < len(alphabet); i++ {
		alts = append(alts, reFromStr(mkStr(alphabet[i:i+1])))
	}
	return reStar(reUnion(alts...))
}

func init() {
	vpInt := func(kind string, w int) externalFn {
		return func(fr *frame, args []value) (value, bool) {
			p := needPath(fr)
			return p.input(argStr(args[0]), bvSort(w), kind), true
		}
	}
	reg(vpPkg+".Bool", func(fr *frame, args []value) (value, bool) {
		return needPath(fr).input(argStr(args[0]), sortBool, "bool"), true
	})
	reg(vpPkg+".Int", vpInt("int", 64))
	reg(vpPkg+".Int64", vpInt("int64", 64))
	reg(vpPkg+".Int32", vpInt("int32", 32))
	reg(vpPkg+".Uint64", vpInt("uint64", 64))
	reg(vpPkg+".Uint32", vpInt("uint32", 32))
	reg(vpPkg+".Uint16", vpInt("uint16", 16))
	reg(vpPkg+".Uint8", vpInt("uint8", 8))
	reg(vpPkg+".Float64", func(fr *frame, args []value) (value, bool) {
		return needPath(fr).input(argStr(args[0]), sortFP, "float64"), true
	})
	reg(vpPkg+".String", func(fr *frame, args []value) (value, bool) {
		p := needPath(fr)
		name := argStr(args[0])
		maxLen := int(asInt64(args[1]))
		_, existed := p.inputSorts[name]
		s := p.input(name, sortStr, "string")
		if !existed {
			p.assume(intCmp("<=", strLen(s), mkInt(int64(maxLen))))
			p.assume(strInRe(s, printableRe("")))
			p.strBudgetV += maxLen
		}
		varAlphabet.Delete(name)
		return s, true
	})
	reg(vpPkg+".StringIn", func(fr *frame, args []value) (value, bool) {
		p := needPath(fr)
		name := argStr(args[0])
		maxLen := int(asInt64(args[1]))
		_, existed := p.inputSorts[name]
		s := p.input(name, sortStr, "string")
		if !existed {
			p.assume(intCmp("<=", strLen(s), mkInt(int64(maxLen))))
			p.assume(strInRe(s, printableRe(argStr(args[2]))))
			p.strBudgetV += maxLen
		}
		if al := argStr(args[2]); al != "" {
			varAlphabet.Store(name, al)
		} else {
			varAlphabet.Delete(name)
		}
		return s, true
	})
	reg(vpPkg+".Choice", func(fr *frame, args []value) (value, bool) {
		return needPath(fr).choice(argStr(args[0]), int(asInt64(args[1]))), true
	})
	reg(vpPkg+".Assume", func(fr *frame, args []value) (value, bool) {
		checkPoison("vp.Assume", args[0])
		p := needPath(fr)
		c := asBoolTerm(args[0])
		if c.IsConst() && !c.B {
			panic(pathAbort{reason: "assume(false)"})
		}
		p.assume(c)
		return nil, true
	})
	reg(vpPkg+".Assert", func(fr *frame, args []value) (value, bool) {
		needPath(fr).assert(args[0], argStr(args[1]), fr)
		return nil, true
	})
	reg(vpPkg+".Reach", func(fr *frame, args []value) (value, bool) {
		needPath(fr).w.eng.reach(argStr(args[0]))
		return nil, true
	})
	reg(vpPkg+".Tier", func(fr *frame, args []value) (value, bool) {
		if needPath(fr).w.eng.tier == "thorough" {
			return 1, true
		}
		return 0, true
	})
	reg(vpPkg+".Symbolic", func(fr *frame, args []value) (value, bool) { return true, true })
	reg(vpPkg+".PermuteMaps", func(fr *frame, args []value) (value, bool) {
		needPath(fr).permuteMaps = args[0].(bool)
		return nil, true
	})
	reg(vpPkg+".And", func(fr *frame, args []value) (value, bool) {
		checkPoison("vp.And", args...)
		return boolValue(tAnd(asBoolTerm(args[0]), asBoolTerm(args[1]))), true
	})
	reg(vpPkg+".And3", func(fr *frame, args []value) (value, bool) {
		checkPoison("vp.And3", args...)
		return boolValue(tAnd(asBoolTerm(args[0]), asBoolTerm(args[1]), asBoolTerm(args[2]))), true
	})
	reg(vpPkg+".Or", func(fr *frame, args []value) (value, bool) {
		checkPoison("vp.Or", args...)
		return boolValue(tOr(asBoolTerm(args[0]), asBoolTerm(args[1]))), true
	})
	reg(vpPkg+".Or3", func(fr *frame, args []value) (value, bool) {
		checkPoison("vp.Or3", args...)
		return boolValue(tOr(asBoolTerm(args[0]), asBoolTerm(args[1]), asBoolTerm(args[2]))), true
	})
	reg(vpPkg+".Not", func(fr *frame, args []value) (value, bool) {
		checkPoison("vp.Not", args...)
		return boolValue(tNot(asBoolTerm(args[0]))), true
	})
	reg(vpPkg+".Implies", func(fr *frame, args []value) (value, bool) {
		checkPoison("vp.Implies", args...)
		return boolValue(tImplies(asBoolTerm(args[0]), asBoolTerm(args[1]))), true
	})
	reg(vpPkg+".Iff", func(fr *frame, args []value) (value, bool) {
		checkPoison("vp.Iff", args...)
		return boolValue(tEq(asBoolTerm(args[0]), asBoolTerm(args[1]))), true
	})
	ite := func(fr *frame, args []value) (value, bool) {
		checkPoison("vp.Ite", args...)
		c := asBoolTerm(args[0])
		if c.IsConst() {
			if c.B {
				return args[1], true
			}
			return args[2], true
		}
		a, b := lift(args[1]), lift(args[2])
		if a.S != b.S {
			a, b = reconcile(a, b, true)
		}
		return tIte(c, a, b), true
	}
	reg(vpPkg+".IteString", ite)
	reg(vpPkg+".IteInt", ite)
	reg(vpPkg+".IteInt64", ite)
	reg(vpPkg+".IteBool", ite)
	reg(vpPkg+".Observe", func(fr *frame, args []value) (value, bool) {
		p := needPath(fr)
		p.observations = append(p.observations, argStr(args[0])+"="+toString(args[1]))
		return nil, true
	})
	reg(vpPkg+".Name", func(fr *frame, args []value) (value, bool) {
		return argStr(args[0]) + strconv.FormatInt(asInt64(args[1]), 10), true
	})
	reg(vpPkg+".Unreachable", func(fr *frame, args []value) (value, bool) {
		needPath(fr).assert(false, argStr(args[0]), fr)
		return nil, true
	})
	// vp.RegexUF(pattern, s): regular-expression match as an uninterpreted predicate (same symbol on both
	// sides of a differential check); natively Go's RE2 full match
	reg(vpPkg+".RegexUF", func(fr *frame, args []value) (value, bool) {
		checkPoison("vp.RegexUF", args...)
		p, s := lift(args[0]), lift(args[1])
		return mkApp("go_ufmatch", sortBool, p, s), true
	})
	// vp.RegexFullMatch(pattern, s): reference matcher over a structurally known pattern
	reg(vpPkg+".RegexFullMatch", func(fr *frame, args []value) (value, bool) {
		return boolValue(regexFullMatch(fr, lift(args[0]), lift(args[1]))), true
	})

	initStringIntrinsics()
	initSyncIntrinsics()
	initFmtIntrinsics()
	initMiscIntrinsics()
}

// ------------------------------------------------------------------ strings

func anySym(args []value) bool {
	for _, a := range args {
		switch a := a.(type) {
		case *Term:
			return true
		case []value:
			if anySym(a) {
				return true
			}
		}
	}
	return false
}

func symOnly(f func(fr *frame, args []value) value) externalFn {
	return func(fr *frame, args []value) (value, bool) {
		if !anySym(args) {
			return nil, false
		}
		checkPoison("string intrinsic", args...)
		return f(fr, args), true
	}
}

// strV / intV wrap results of symbolic library calls; large terms are named by a fresh
// variable (with a defining equation on the path) so that terms do not grow exponentially.
func (fr *frame) strV(t *Term) value { return concretize(fr.nameTerm(t), types.Typ[types.String]) }
func (fr *frame) intV(t *Term) value { return concretize(fr.nameTerm(t), types.Typ[types.Int]) }

const nameThreshold = 24

func (fr *frame) nameTerm(t *Term) *Term {
	if t.IsConst() || t.size <= nameThreshold || fr.i.path == nil {
		return t
	}
	p := fr.i.path
	if v, ok := p.named[t.String()]; ok {
		return v
	}
	v := p.freshVar("t", t.S)
	p.pc = append(p.pc, tEq(v, t))
	p.named[t.String()] = v
	p.namedDef[v.Name] = t
	return v
}

// lastIndexOf introduces a fresh Int constrained to be the last occurrence index.
func lastIndexOf(p *pathState, s, sub *Term) *Term {
	i := p.freshVar("lastidx", sortInt)
	n, k := strLen(s), strLen(sub)
	notFound := tAnd(tEq(i, mkInt(-1)), tNot(strContains(s, sub)))
	tail := strSubstr(s, intAdd(i, mkInt(1)), n) // s[i+1:]
	found := tAnd(
		intCmp(">=", i, mkInt(0)),
		intCmp("<=", intAdd(i, k), n),
		tEq(strSubstr(s, i, k), sub),
		tNot(strContains(tail, sub)),
	)
	// note: for |sub|>1 "no later occurrence" must consider overlaps starting inside; s[i+1:] covers all later starts.
	p.assume(tOr(notFound, found))
	return i
}

func initStringIntrinsics() {
	// net.ParseIP on a symbolic string: strings that cannot be an IP literal (no ':' and not made of digits and dots
	// with at least one digit) parse to nil; symbolic IP literals are excluded by an assumption on the path.
	reg("net.ParseIP", symOnly(func(fr *frame, a []value) value {
		h := lift(a[0])
		digitsDots := reUnion(reRange('0', '9'), mkApp("str.to_re", sortRe, mkStr(".")))
		v4 := strInRe(h, reConcat(reStar(digitsDots), reRange('0', '9'), reStar(digitsDots)))
		// stated engine assumption: a symbolic string handed to net.ParseIP is not an IP literal
		needPath(fr).assume(tNot(tOr(strContains(h, mkStr(":")), v4)))
		return []value(nil)
	}))
	// net.JoinHostPort: "[host]:port" when host contains ':' or '%', else "host:port"
	reg("net.JoinHostPort", symOnly(func(fr *frame, a []value) value {
		h, p := lift(a[0]), lift(a[1])
		br := tOr(strContains(h, mkStr(":")), strContains(h, mkStr("%")))
		return fr.strV(tIte(br, strConcat(mkStr("["), h, mkStr("]:"), p), strConcat(h, mkStr(":"), p)))
	}))
	reg("strings.HasPrefix", symOnly(func(fr *frame, a []value) value { return boolValue(strPrefixOf(lift(a[1]), lift(a[0]))) }))
	reg("strings.HasSuffix", symOnly(func(fr *frame, a []value) value { return boolValue(strSuffixOf(lift(a[1]), lift(a[0]))) }))
	reg("strings.Contains", symOnly(func(fr *frame, a []value) value { return boolValue(strContains(lift(a[0]), lift(a[1]))) }))
	reg("strings.Index", symOnly(func(fr *frame, a []value) value {
		return fr.intV(strIndexOf(lift(a[0]), lift(a[1]), mkInt(0)))
	}))
	reg("strings.IndexByte", symOnly(func(fr *frame, a []value) value {
		c := lift(a[1])
		return fr.intV(strIndexOf(lift(a[0]), strFromCode(bvToInt(c, false)), mkInt(0)))
	}))
	reg("strings.IndexRune", symOnly(func(fr *frame, a []value) value {
		c := lift(a[1])
		return fr.intV(strIndexOf(lift(a[0]), strFromCode(bvToInt(c, true)), mkInt(0)))
	}))
	reg("strings.ContainsRune", symOnly(func(fr *frame, a []value) value {
		c := lift(a[1])
		return boolValue(strContains(lift(a[0]), strFromCode(bvToInt(c, true))))
	}))
	reg("strings.LastIndex", symOnly(func(fr *frame, a []value) value {
		return fr.intV(lastIndexOf(needPath(fr), lift(a[0]), lift(a[1])))
	}))
	reg("strings.LastIndexByte", symOnly(func(fr *frame, a []value) value {
		return fr.intV(lastIndexOf(needPath(fr), lift(a[0]), strFromCode(bvToInt(lift(a[1]), false))))
	}))
	reg("strings.TrimPrefix", symOnly(func(fr *frame, a []value) value {
		s, p := lift(a[0]), lift(a[1])
		return fr.strV(tIte(strPrefixOf(p, s), strSubstr(s, strLen(p), strLen(s)), s))
	}))
	reg("strings.TrimSuffix", symOnly(func(fr *frame, a []value) value {
		s, p := lift(a[0]), lift(a[1])
		return fr.strV(tIte(strSuffixOf(p, s), strSubstr(s, mkInt(0), intSub(strLen(s), strLen(p))), s))
	}))
	reg("strings.CutPrefix", symOnly(func(fr *frame, a []value) value {
		s, p := lift(a[0]), lift(a[1])
		ok := strPrefixOf(p, s)
		return tuple{fr.strV(tIte(ok, strSubstr(s, strLen(p), strLen(s)), s)), boolValue(ok)}
	}))
	reg("strings.CutSuffix", symOnly(func(fr *frame, a []value) value {
		s, p := lift(a[0]), lift(a[1])
		ok := strSuffixOf(p, s)
		return tuple{fr.strV(tIte(ok, strSubstr(s, mkInt(0), intSub(strLen(s), strLen(p))), s)), boolValue(ok)}
	}))
	reg("strings.Cut", symOnly(func(fr *frame, a []value) value {
		s, sep := lift(a[0]), lift(a[1])
		i := strIndexOf(s, sep, mkInt(0))
		found := intCmp(">=", i, mkInt(0))
		before := tIte(found, strSubstr(s, mkInt(0), i), s)
		after := tIte(found, strSubstr(s, intAdd(i, strLen(sep)), strLen(s)), mkStr(""))
		return tuple{fr.strV(before), fr.strV(after), boolValue(found)}
	}))
	reg("strings.Join", symOnly(func(fr *frame, a []value) value {
		xs := a[0].([]value)
		sep := lift(a[1])
		var parts []*Term
		for i, x := range xs {
			if i > 0 {
				parts = append(parts, sep)
			}
			parts = append(parts, lift(x))
		}
		return fr.strV(strConcat(parts...))
	}))
	reg("strings.ReplaceAll", symOnly(func(fr *frame, a []value) value {
		return fr.strV(strReplaceAll(lift(a[0]), lift(a[1]), lift(a[2])))
	}))
	reg("strings.Replace", symOnly(func(fr *frame, a []value) value {
		n, ok := a[3].(int)
		if !ok {
			panic(engineError("strings.Replace with symbolic n"))
		}
		if n < 0 {
			return fr.strV(strReplaceAll(lift(a[0]), lift(a[1]), lift(a[2])))
		}
		if n == 1 {
			return fr.strV(strReplaceFirst(lift(a[0]), lift(a[1]), lift(a[2])))
		}
		panic(engineError("strings.Replace with n > 1 on symbolic string"))
	}))
	reg("regexp.QuoteMeta", symOnly(func(fr *frame, a []value) value {
		return mkApp("go_quotemeta", sortStr, lift(a[0]))
	}))
	reg("strings.ToLower", symOnly(func(fr *frame, a []value) value {
		return mkApp("go_tolower", sortStr, lift(a[0]))
	}))
	reg("strings.EqualFold", symOnly(func(fr *frame, a []value) value {
		return boolValue(tEq(mkApp("go_tolower", sortStr, lift(a[0])), mkApp("go_tolower", sortStr, lift(a[1]))))
	}))
	reg("strings.Compare", symOnly(func(fr *frame, a []value) value {
		x, y := lift(a[0]), lift(a[1])
		return fr.intV(tIte(tEq(x, y), mkInt(0), tIte(strLt(x, y), mkInt(-1), mkInt(1))))
	}))
	reg("strings.Count", symOnly(func(fr *frame, a []value) value {
		// count by forking over occurrences
		s, sep := lift(a[0]), lift(a[1])
		if sep.IsConst() && sep.Str == "" {
			return fr.intV(intAdd(strLen(s), mkInt(1)))
		}
		n := 0
		rest := s
		for {
			i := fr.nameTerm(strIndexOf(rest, sep, mkInt(0)))
			if fr.decideValue(boolValue(intCmp("<", i, mkInt(0)))) {
				return n
			}
			n++
			rest = fr.nameTerm(strSubstr(rest, intAdd(i, strLen(sep)), strLen(rest)))
			if n > needPath(fr).strBudget() {
				panic(pathAbort{reason: "bound: strings.Count"})
			}
		}
	}))
	split := func(fr *frame, s, sep *Term, max int) value {
		if sep.IsConst() && sep.Str == "" {
			panic(engineError("strings.Split with empty separator on symbolic string"))
		}
		p := needPath(fr)
		var pieces []value
		rest := s
		for {
			if max > 0 && len(pieces) == max-1 {
				pieces = append(pieces, fr.strV(rest))
				return pieces
			}
			if sep.IsConst() && len(sep.Str) == 1 && fr.i.cfg.SplitEncoding == "wordeq" {
				// word-equation encoding (exact for one-character separators):
				// rest = piece ++ sep ++ rest' with sep not in piece
				if !fr.decideValue(boolValue(strContains(rest, sep))) {
					pieces = append(pieces, fr.strV(rest))
					return pieces
				}
				piece := p.freshVar("piece", sortStr)
				next := p.freshVar("rest", sortStr)
				p.assume(tEq(rest, strConcat(piece, sep, next)))
				p.assume(tNot(strContains(piece, sep)))
				pieces = append(pieces, piece)
				rest = next
			} else {
				i := fr.nameTerm(strIndexOf(rest, sep, mkInt(0)))
				if fr.decideValue(boolValue(intCmp("<", i, mkInt(0)))) {
					pieces = append(pieces, fr.strV(rest))
					return pieces
				}
				pieces = append(pieces, fr.strV(strSubstr(rest, mkInt(0), i)))
				rest = fr.nameTerm(strSubstr(rest, intAdd(i, strLen(sep)), strLen(rest)))
			}
			if len(pieces) > p.strBudget()+1 {
				panic(pathAbort{reason: "bound: strings.Split"})
			}
		}
	}
	reg("strings.Split", symOnly(func(fr *frame, a []value) value { return split(fr, lift(a[0]), lift(a[1]), -1) }))
	reg("strings.SplitN", symOnly(func(fr *frame, a []value) value {
		n, ok := a[2].(int)
		if !ok {
			panic(engineError("strings.SplitN with symbolic n"))
		}
		if n == 0 {
			return []value(nil)
		}
		return split(fr, lift(a[0]), lift(a[1]), n)
	}))
	reg("strings.TrimSpace", symOnly(func(fr *frame, a []value) value {
		// assumption-free model only for strings without leading/trailing space: decide
		s := lift(a[0])
		sp := mkStr(" ")
		if fr.decideValue(boolValue(tOr(strPrefixOf(sp, s), strSuffixOf(sp, s), strContains(s, mkStr("\t")), strContains(s, mkStr("\n"))))) {
			panic(pathAbort{reason: "bound: TrimSpace on symbolic string with surrounding whitespace"})
		}
		return fr.strV(s)
	}))

	// strconv on symbolic values
	reg("strconv.Itoa", symOnly(func(fr *frame, a []value) value {
		x := liftIndex(a[0])
		neg := intCmp("<", x, mkInt(0))
		return fr.strV(tIte(neg, strConcat(mkStr("-"), strFromInt(intNeg(x))), strFromInt(x)))
	}))
	reg("strconv.Atoi", symOnly(func(fr *frame, a []value) value {
		s := lift(a[0])
		return symAtoi(fr, s, 64)
	}))
	reg("strconv.ParseUint", symOnly(func(fr *frame, a []value) value {
		s := lift(a[0])
		base, ok1 := a[1].(int)
		bits, ok2 := a[2].(int)
		if !ok1 || !ok2 || base != 10 {
			panic(engineError("strconv.ParseUint: only concrete base 10 supported symbolically"))
		}
		if bits == 0 {
			bits = 64
		}
		// digits only (no sign), bounded by 2^bits-1; leading zeros allowed by Go
		v := strToInt(s)
		okc := tAnd(intCmp(">=", v, mkInt(0)), strInRe(s, rePlus(reRange('0', '9'))))
		var lim *Term
		if bits >= 63 {
			lim = mkInt(1<<62 - 1 + 1<<62) // 2^63-1: beyond this the engine declines
		} else {
			lim = mkInt(int64(1)<<uint(bits) - 1)
		}
		if fr.decideValue(boolValue(tAnd(okc, intCmp("<=", v, lim)))) {
			return tuple{concretize(intToBV(v, 64), types.Typ[types.Uint64]), iface{}}
		}
		return tuple{uint64(0), fr.i.makeError("strconv.ParseUint: parsing: invalid syntax or out of range (symbolic)")}
	}))
	reg("strconv.FormatBool", symOnly(func(fr *frame, a []value) value {
		return fr.strV(tIte(asBoolTerm(a[0]), mkStr("true"), mkStr("false")))
	}))
	reg("strconv.FormatUint", symOnly(func(fr *frame, a []value) value {
		if b, ok := a[1].(int); !ok || b != 10 {
			panic(engineError("strconv.FormatUint: only base 10 supported symbolically"))
		}
		x := lift(a[0])
		if x.S.K == SBV {
			x = bvToInt(x, false)
		}
		return fr.strV(strFromInt(x))
	}))
	reg("strconv.FormatInt", symOnly(func(fr *frame, a []value) value {
		if b, ok := a[1].(int); !ok || b != 10 {
			panic(engineError("strconv.FormatInt: only base 10 supported symbolically"))
		}
		x := liftIndex(a[0])
		neg := intCmp("<", x, mkInt(0))
		return fr.strV(tIte(neg, strConcat(mkStr("-"), strFromInt(intNeg(x))), strFromInt(x)))
	}))

	// strings.Builder as a side-table string accumulator
	type builder struct{ s *Term }
	getB := func(fr *frame, recv value) *builder {
		p := needPathOrInit(fr)
		key := recv.(*value)
		if b, ok := p[key]; ok {
			return b.(*builder)
		}
		b := &builder{s: mkStr("")}
		p[key] = b
		return b
	}
	reg("(*strings.Builder).WriteString", func(fr *frame, a []value) (value, bool) {
		checkPoison("Builder.WriteString", a[1])
		b := getB(fr, a[0])
		b.s = strConcat(b.s, lift(a[1]))
		return tuple{fr.intV(strLen(lift(a[1]))), iface{}}, true
	})
	reg("(*strings.Builder).WriteByte", func(fr *frame, a []value) (value, bool) {
		b := getB(fr, a[0])
		c := lift(a[1])
		b.s = strConcat(b.s, strFromCode(bvToInt(c, false)))
		return iface{}, true
	})
	reg("(*strings.Builder).WriteRune", func(fr *frame, a []value) (value, bool) {
		b := getB(fr, a[0])
		if r, ok := a[1].(int32); ok {
			b.s = strConcat(b.s, mkStr(string(rune(r))))
			return tuple{len(string(rune(r))), iface{}}, true
		}
		c := lift(a[1])
		b.s = strConcat(b.s, strFromCode(bvToInt(c, true)))
		return tuple{1, iface{}}, true
	})
	reg("(*strings.Builder).Write", func(fr *frame, a []value) (value, bool) {
		b := getB(fr, a[0])
		bs := a[1].([]value)
		b.s = strConcat(b.s, lift(bytesToStringTerm(bs)))
		return tuple{len(bs), iface{}}, true
	})
	reg("(*strings.Builder).String", func(fr *frame, a []value) (value, bool) { return fr.strV(getB(fr, a[0]).s), true })
	reg("(*strings.Builder).Len", func(fr *frame, a []value) (value, bool) { return fr.intV(strLen(getB(fr, a[0]).s)), true })
	reg("(*strings.Builder).Reset", func(fr *frame, a []value) (value, bool) { getB(fr, a[0]).s = mkStr(""); return nil, true })
	reg("(*strings.Builder).Grow", func(fr *frame, a []value) (value, bool) { return nil, true })
	reg("(*strings.Builder).Cap", func(fr *frame, a []value) (value, bool) { return 0, true })
}


func needPathOrInit(fr *frame) map[any]any {
	if fr.i.path != nil {
		return fr.i.path.side
	}
	if fr.i.initSide == nil {
		fr.i.initSide = map[any]any{}
	}
	return fr.i.initSide
}

func symAtoi(fr *frame, s *Term, bits int) value {
	digits := rePlus(reRange('0', '9'))
	isPos := strInRe(s, reConcat(reOpt(reFromStr(mkStr("+"))), digits))
	isNeg := strInRe(s, reConcat(reFromStr(mkStr("-")), digits))
	switch fr.i.path.decide([]*Term{tAnd(isPos, tNot(strPrefixOf(mkStr("+"), s))), tAnd(isPos, strPrefixOf(mkStr("+"), s)), isNeg, tNot(tOr(isPos, isNeg))}, true) {
	case 0:
		v := strToInt(s)
		needPath(fr).assume(intCmp("<", v, mkInt(1<<40))) // bound: decimal literals below 2^40
		return tuple{fr.intV(v), iface{}}
	case 1:
		v := strToInt(strSubstr(s, mkInt(1), strLen(s)))
		needPath(fr).assume(intCmp("<", v, mkInt(1<<40)))
		return tuple{fr.intV(v), iface{}}
	case 2:
		v := strToInt(strSubstr(s, mkInt(1), strLen(s)))
		needPath(fr).assume(intCmp("<", v, mkInt(1<<40)))
		return tuple{fr.intV(intNeg(v)), iface{}}
	}
	return tuple{0, fr.i.makeError("strconv.Atoi: parsing: invalid syntax (symbolic)")}
}

// ------------------------------------------------------------------ fmt / errors

func hasMethod(m *machine, t types.Type, name string) *ssa.Function {
	if t == nil {
		return nil
	}
	ms := m.prog.MethodSets.MethodSet(t)
	for i := 0; i < ms.Len(); i++ {
		sel := ms.At(i)
		if sel.Obj().Name() == name {
			sig := sel.Type().(*types.Signature)
			if sig.Params().Len() == 0 && sig.Results().Len() == 1 {
				if b := basicOf(sig.Results().At(0).Type()); b != nil && b.Kind() == types.String {
					return m.prog.MethodValue(sel)
				}
			}
		}
	}
	return nil
}

// formatArg renders one fmt operand for verb (one of v s d q t x).
func (fr *frame) formatArg(verb byte, flags string, arg value) *Term {
	it, ok := arg.(iface)
	if !ok {
		if p, isP := arg.(poison); isP {
			return mkStr("<poison:" + p.why + ">")
		}
		return mkStr(toString(arg))
	}
	if it.t == nil {
		if verb == 's' {
			return mkStr("%!s(<nil>)")
		}
		return mkStr("<nil>")
	}
	if verb == 'v' || verb == 's' || verb == 'q' {
		if _, isP := it.v.(poison); !isP {
			if f := hasMethod(fr.i, it.t, "Error"); f != nil {
				if p, isPtr := it.v.(*value); !(isPtr && p == nil) {
					r := call(fr.i, fr, 0, f, []value{it.v})
					return quoteIf(verb, lift(r))
				}
			}
			if f := hasMethod(fr.i, it.t, "String"); f != nil {
				if p, isPtr := it.v.(*value); !(isPtr && p == nil) {
					r := call(fr.i, fr, 0, f, []value{it.v})
					return quoteIf(verb, lift(r))
				}
			}
		}
	}
	switch x := it.v.(type) {
	case *Term:
		switch x.S.K {
		case SStr:
			return quoteIf(verb, x)
		case SBool:
			return tIte(x, mkStr("true"), mkStr("false"))
		case SInt:
			neg := intCmp("<", x, mkInt(0))
			return tIte(neg, strConcat(mkStr("-"), strFromInt(intNeg(x))), strFromInt(x))
		case SBV:
			_, signed, _ := basicWidth(basicOf(it.t).Kind())
			xi := bvToInt(x, signed)
			if !signed {
				return strFromInt(xi)
			}
			neg := intCmp("<", xi, mkInt(0))
			return tIte(neg, strConcat(mkStr("-"), strFromInt(intNeg(xi))), strFromInt(xi))
		}
		return fr.i.path.freshVar("fmt", sortStr)
	case bool, int, int8, int16, int32, int64, uint, uint8, uint16, uint32, uint64, uintptr, float32, float64, string:
		return mkStr(fmt.Sprintf("%"+flags+string(verb), x))
	case poison:
		return mkStr("<poison>")
	case []value:
		// []string / []byte common cases
		if sl, ok := it.t.Underlying().(*types.Slice); ok {
			if b := basicOf(sl.Elem()); b != nil && b.Kind() == types.String {
				parts := []*Term{mkStr("[")}
				for i, e := range x {
					if i > 0 {
						parts = append(parts, mkStr(" "))
					}
					parts = append(parts, lift(e))
				}
				parts = append(parts, mkStr("]"))
				return strConcat(parts...)
			}
			if b := basicOf(sl.Elem()); b != nil && b.Kind() == types.Uint8 && (verb == 's') {
				return lift(bytesToStringTerm(x))
			}
		}
	}
	return mkStr(toString(it.v))
}

func quoteIf(verb byte, s *Term) *Term {
	if verb != 'q' {
		return s
	}
	if s.IsConst() {
		return mkStr(strconv.Quote(s.Str))
	}
	return strConcat(mkStr(`"`), s, mkStr(`"`)) // no escapes under the printable-ASCII assumption except quote/backslash
}

// sprintf implements the subset of fmt formatting the engine understands.
// wrapped receives the operand of %w, if any.
func (fr *frame) sprintf(format string, args []value, wrapped *value) *Term {
	var parts []*Term
	ai := 0
	for i := 0; i < len(format); i++ {
		c := format[i]
		if c != '%' {
			j := i
			for j < len(format) && format[j] != '%' {
				j++
			}
			parts = append(parts, mkStr(format[i:j]))
			i = j - 1
			continue
		}
		i++
		if i >= len(format) {
			parts = append(parts, mkStr("%!(NOVERB)"))
			break
		}
		start := i
		for i < len(format) && strings.IndexByte("+-# 0123456789.", format[i]) >= 0 {
			i++
		}
		if i >= len(format) {
			break
		}
		flags := format[start:i]
		verb := format[i]
		if verb == '%' {
			parts = append(parts, mkStr("%"))
			continue
		}
		if ai >= len(args) {
			parts = append(parts, mkStr("%!"+string(verb)+"(MISSING)"))
			continue
		}
		arg := args[ai]
		ai++
		if verb == 'w' {
			if wrapped != nil {
				*wrapped = arg
			}
			verb = 'v'
		}
		parts = append(parts, fr.formatArg(verb, flags, arg))
	}
	return strConcat(parts...)
}

func initFmtIntrinsics() {
	reg("fmt.Sprintf", func(fr *frame, a []value) (value, bool) {
		f, ok := a[0].(string)
		if !ok {
			panic(engineError("fmt.Sprintf with symbolic format"))
		}
		return fr.strV(fr.sprintf(f, a[1].([]value), nil)), true
	})
	reg("fmt.Errorf", func(fr *frame, a []value) (value, bool) {
		f, ok := a[0].(string)
		if !ok {
			panic(engineError("fmt.Errorf with symbolic format"))
		}
		var wrapped value
		msg := fr.strV(fr.sprintf(f, a[1].([]value), &wrapped))
		if wrapped != nil {
			if w, ok := wrapped.(iface); ok && w.t != nil {
				pkg := fr.i.prog.ImportedPackage("fmt")
				if pkg != nil && pkg.Type("wrapError") != nil {
					cell := new(value)
					*cell = structure{msg, w}
					return iface{t: types.NewPointer(pkg.Type("wrapError").Object().Type()), v: cell}, true
				}
			}
		}
		return fr.i.makeError(msg), true
	})
	reg("fmt.Sprint", func(fr *frame, a []value) (value, bool) {
		var parts []*Term
		for _, x := range a[0].([]value) {
			parts = append(parts, fr.formatArg('v', "", x))
		}
		return fr.strV(strConcat(parts...)), true
	})
	reg("fmt.Sprintln", func(fr *frame, a []value) (value, bool) {
		var parts []*Term
		for i, x := range a[0].([]value) {
			if i > 0 {
				parts = append(parts, mkStr(" "))
			}
			parts = append(parts, fr.formatArg('v', "", x))
		}
		parts = append(parts, mkStr("\n"))
		return fr.strV(strConcat(parts...)), true
	})
	for _, n := range []string{"fmt.Println", "fmt.Printf", "fmt.Print", "fmt.Fprintf", "fmt.Fprintln", "fmt.Fprint"} {
		reg(n, func(fr *frame, a []value) (value, bool) { return tuple{0, iface{}}, true })
	}
	reg("errors.New", func(fr *frame, a []value) (value, bool) { return fr.i.makeError(a[0]), true })
	reg("errors.Is", func(fr *frame, a []value) (value, bool) {
		err, target := a[0].(iface), a[1].(iface)
		return fr.errorsIs(err, target, 0), true
	})
	reg("errors.As", func(fr *frame, a []value) (value, bool) {
		err, ok := a[0].(iface)
		if !ok {
			panic(engineError("errors.As: err is not an interface value"))
		}
		target := a[1].(iface)
		pt, ok := target.t.Underlying().(*types.Pointer)
		if !ok || target.v.(*value) == nil {
			panic(targetPanic{v: iface{t: rtErrType, v: "errors: target must be a non-nil pointer"}})
		}
		elemT := pt.Elem()
		cell := target.v.(*value)
		for depth := 0; depth < 20 && err.t != nil; depth++ {
			if it, isIface := elemT.Underlying().(*types.Interface); isIface {
				if types.Implements(err.t, it) {
					fr.i.rawStore(cell, err)
					return true, true
				}
			} else if types.Identical(err.t, elemT) {
				fr.i.store(elemT, cell, err.v)
				return true, true
			}
			// As(any) bool method
			ms := fr.i.prog.MethodSets.MethodSet(err.t)
			for i := 0; i < ms.Len(); i++ {
				sel := ms.At(i)
				if sel.Obj().Name() == "As" {
					sig := sel.Type().(*types.Signature)
					if sig.Params().Len() == 1 && sig.Results().Len() == 1 {
						if fr.decideValue(call(fr.i, fr, 0, fr.i.prog.MethodValue(sel), []value{err.v, target})) {
							return true, true
						}
					}
				}
			}
			next, _ := fr.unwrapErr(err).(iface)
			err = next
		}
		return false, true
	})
	reg("errors.Unwrap", func(fr *frame, a []value) (value, bool) {
		return fr.unwrapErr(a[0].(iface)), true
	})
}

func (fr *frame) unwrapErr(err iface) value {
	if err.t == nil {
		return iface{}
	}
	ms := fr.i.prog.MethodSets.MethodSet(err.t)
	for i := 0; i < ms.Len(); i++ {
		sel := ms.At(i)
		if sel.Obj().Name() == "Unwrap" {
			sig := sel.Type().(*types.Signature)
			if sig.Params().Len() == 0 && sig.Results().Len() == 1 && types.Identical(sig.Results().At(0).Type(), errorIface) {
				return call(fr.i, fr, 0, fr.i.prog.MethodValue(sel), []value{err.v})
			}
		}
	}
	return iface{}
}

func (fr *frame) errorsIs(err, target iface, depth int) value {
	if depth > 20 {
		return false
	}
	if err.t == nil || target.t == nil {
		return err.t == nil && target.t == nil
	}
	if sameType(err.t, target.t) && types.Comparable(err.t) {
		if fr.decideValue(equals(err.t, err.v, target.v)) {
			return true
		}
	}
	// Is(error) bool method
	ms := fr.i.prog.MethodSets.MethodSet(err.t)
	for i := 0; i < ms.Len(); i++ {
		sel := ms.At(i)
		if sel.Obj().Name() == "Is" {
			sig := sel.Type().(*types.Signature)
			if sig.Params().Len() == 1 && sig.Results().Len() == 1 {
				if fr.decideValue(call(fr.i, fr, 0, fr.i.prog.MethodValue(sel), []value{err.v, target})) {
					return true
				}
			}
		}
	}
	next := fr.unwrapErr(err)
	if n, ok := next.(iface); ok && n.t != nil {
		return fr.errorsIs(n, target, depth+1)
	}
	return false
}
