// gosym: cooperative goroutines, channels, select, timers.
//
// Each interpreted goroutine runs on a real goroutine but only one holds the
// baton at any time. Context switches happen only at visible operations; at a
// visible operation with several enabled goroutines (or armed timers) the
// path's decision procedure picks who runs, so schedules are explored like
// any other fork.
package main

import (
	"fmt"
	"go/types"
	"runtime"
	"sync"

	"golang.org/x/tools/go/ssa"
)

type killGoroutine struct{}

type gor struct {
	id      int
	resume  chan bool
	done    bool
	blocked func() bool
	what    string
	isMain  bool
	depth   int
}

type timerV struct {
	c       *chanV
	d       value // duration (int64 or *Term)
	armedAt *Term
	fired   bool
	stopped bool
	fn      value // AfterFunc
}

type sched struct {
	m       *machine
	gs      []*gor
	fatal   any
	timers  []*timerV
	wg      sync.WaitGroup
	nowLast *Term
	preempt int
	delays  int // delay-bounded scheduling: deviations from the deterministic round-robin choice used so far
}

func newMainGoroutine(m *machine) *gor {
	g := &gor{id: 0, resume: make(chan bool, 1), isMain: true}
	m.sch = &sched{m: m, gs: []*gor{g}}
	m.ranThreads = false
	return g
}

// runMain runs the harness function on the main goroutine and cleans up the others.
func runMain(m *machine, g *gor, fn *ssa.Function) {
	defer func() {
		s := m.sch
		for _, o := range s.gs {
			if o != g && !o.done {
				o.done = true
				o.resume <- false
			}
		}
		s.wg.Wait()
		m.ranThreads = len(s.gs) > 1 // panics (deadlocks included) are recorded after this point
		m.sch = nil
	}()
	fr := &frame{i: m, g: g}
	call(m, fr, 0, fn, nil)
}

func (s *sched) enabled(except *gor) []*gor {
	var out []*gor
	for _, g := range s.gs {
		if g.done || g == except {
			continue
		}
		if g.blocked == nil || g.blocked() {
			out = append(out, g)
		}
	}
	return out
}

func (s *sched) armedTimers() []*timerV {
	var out []*timerV
	for _, t := range s.timers {
		if !t.fired && !t.stopped {
			out = append(out, t)
		}
	}
	return out
}

// switchTo hands the baton from cur to next and waits to get it back.
func (s *sched) switchTo(cur, next *gor) {
	m := s.m
	cur.depth = m.depth
	m.curG = next
	m.depth = next.depth
	next.resume <- true
	ok := <-cur.resume
	if !ok {
		panic(killGoroutine{})
	}
	m.curG = cur
	m.depth = cur.depth
	if s.fatal != nil && cur.isMain {
		f := s.fatal
		s.fatal = nil
		panic(f)
	}
}

// pick chooses among enabled goroutines and armed timers.
// cur (if runnable) is candidate 0.
func (s *sched) pick(cands []*gor, timers []*timerV) (g *gor, t *timerV) {
	n := len(cands) + len(timers)
	if n == 0 {
		return nil, nil
	}
	k := 0
	if md := s.m.cfg.maxDelays(); md >= 0 {
		// delay bounding (Emmi, Qadeer, Rakamaric): candidates are tried in a fixed round-robin order (goroutines
		// after the current one first, timers last); choosing the i-th candidate costs i delays
		cur := s.m.curG
		if cur != nil && len(cands) > 1 {
			rot := make([]*gor, 0, len(cands))
			for _, g := range cands {
				if g == cur || g.id > cur.id {
					rot = append(rot, g)
				}
			}
			for _, g := range cands {
				if g != cur && g.id < cur.id {
					rot = append(rot, g)
				}
			}
			cands = rot
		}
		if rem := md - s.delays; n > rem+1 {
			n = rem + 1
		}
	}
	if n > 1 {
		if s.m.path == nil {
			panic(engineError("scheduling choice outside a path"))
		}
		alts := make([]*Term, n)
		for i := range alts {
			alts[i] = termTrue
		}
		k = s.m.path.decide(alts, true)
	}
	if s.m.cfg.maxDelays() >= 0 {
		s.delays += k
	}
	if k < len(cands) {
		return cands[k], nil
	}
	return nil, timers[k-len(cands)]
}

// visibleOp is a scheduling point for the current goroutine.
func visibleOp(fr *frame, what string) {
	m := fr.i
	s := m.sch
	if s == nil || m.initDepth > 0 {
		return
	}
	cur := m.curG
	if s.preempt >= m.cfg.maxPreemptions(m.path) {
		return // pre-emption bound reached: the running goroutine continues until it blocks or exits
	}
	for {
		others := s.enabled(cur)
		timers := s.armedTimers()
		if len(others) == 0 && len(timers) == 0 {
			return
		}
		if !m.cfg.timersAtEveryOp() {
			timers = nil // timers fire only when someone blocks or at explicit yields
			if len(others) == 0 {
				return
			}
		}
		cands := append([]*gor{cur}, others...)
		g, t := s.pick(cands, timers)
		if t != nil {
			s.fire(fr, t)
			continue
		}
		if g == cur {
			return
		}
		s.preempt++
		s.switchTo(cur, g)
		return
	}
}

// blockUntil parks the current goroutine until cond holds.
func blockUntil(fr *frame, what string, cond func() bool) {
	m := fr.i
	s := m.sch
	if cond() {
		return
	}
	if s == nil || m.initDepth > 0 {
		panic(engineError("blocking operation (" + what + ") outside a path"))
	}
	cur := m.curG
	for !cond() {
		cur.blocked = cond
		cur.what = what
		others := s.enabled(cur)
		timers := s.armedTimers()
		if len(others) == 0 && len(timers) == 0 {
			cur.blocked = nil
			desc := ""
			for _, g := range s.gs {
				if !g.done {
					desc += fmt.Sprintf(" g%d:%s", g.id, g.what)
				}
			}
			dl := targetPanic{v: iface{t: rtErrType, v: "fatal error: all goroutines are asleep - deadlock!" + desc}}
			if cur.isMain {
				panic(dl)
			}
			s.fatal = dl
			s.switchTo(cur, s.gs[0])
			continue
		}
		g, t := s.pick(others, timers)
		if t != nil {
			s.fire(fr, t)
			continue
		}
		s.switchTo(cur, g)
	}
	cur.blocked = nil
	cur.what = ""
}

func spawnGoroutine(fr *frame, instr *ssa.Go, fn value, args []value) {
	m := fr.i
	s := m.sch
	if s == nil || m.initDepth > 0 {
		panic(engineError("go statement outside a path (package initialiser)"))
	}
	g := &gor{id: len(s.gs), resume: make(chan bool, 1)}
	s.gs = append(s.gs, g)
	s.wg.Add(1)
	go func() {
		defer s.wg.Done()
		if ok := <-g.resume; !ok {
			return
		}
		defer func() {
			r := recover()
			g.done = true
			switch r.(type) {
			case nil:
			case killGoroutine:
				return
			default:
				if _, isRT := r.(runtime.Error); isRT {
					buf := make([]byte, 1<<13)
					n := runtime.Stack(buf, false)
					r = engineError(fmt.Sprintf("engine crash in goroutine: %v\n%s", r, buf[:n]))
				}
				s.fatal = r
				main := s.gs[0]
				m.curG = main
				m.depth = main.depth
				main.resume <- true
				return
			}
			// normal exit: hand the baton on
			s.onExit(g)
		}()
		gfr := &frame{i: m, g: g}
		call(m, gfr, instr.Pos(), fn, args)
	}()
	visibleOp(fr, "go")
}

// onExit passes control on after goroutine g finished.
func (s *sched) onExit(g *gor) {
	m := s.m
	fr := &frame{i: m, g: g}
	for {
		others := s.enabled(g)
		timers := s.armedTimers()
		if len(others) == 0 && len(timers) == 0 {
			// everyone else is blocked for good
			desc := ""
			for _, o := range s.gs {
				if !o.done {
					desc += fmt.Sprintf(" g%d:%s", o.id, o.what)
				}
			}
			s.fatal = targetPanic{v: iface{t: rtErrType, v: "fatal error: all goroutines are asleep - deadlock!" + desc}}
			others = []*gor{s.gs[0]}
		}
		var next *gor
		var t *timerV
		func() {
			defer func() {
				if r := recover(); r != nil {
					s.fatal = r
					next = s.gs[0]
				}
			}()
			next, t = s.pick(others, timers)
		}()
		if t != nil {
			s.fire(fr, t)
			continue
		}
		m.curG = next
		m.depth = next.depth
		next.resume <- true
		return
	}
}

// ------------------------------------------------------------------ channels

type selState struct{ fired int }

type sudog struct {
	g    *gor
	val  value
	ok   bool
	done bool
	sel  *selState
	idx  int
}

func (sd *sudog) live() bool {
	return !sd.done && !sd.g.done && (sd.sel == nil || sd.sel.fired == -1)
}

type chanV struct {
	capn   int
	buf    []value
	closed bool
	sendq  []*sudog
	recvq  []*sudog
	elemT  types.Type
}

func makeChan(fr *frame, size int64) *chanV {
	return &chanV{capn: int(size)}
}

func chanLen(c *chanV) int {
	if c == nil {
		return 0
	}
	return len(c.buf)
}
func chanCap(c *chanV) int {
	if c == nil {
		return 0
	}
	return c.capn
}

func firstLive(q []*sudog) *sudog {
	for _, sd := range q {
		if sd.live() {
			return sd
		}
	}
	return nil
}

func prune(q []*sudog) []*sudog {
	out := q[:0]
	for _, sd := range q {
		if sd.live() {
			out = append(out, sd)
		}
	}
	return out
}

func asChan(v value) *chanV {
	switch c := v.(type) {
	case *chanV:
		return c
	case poison:
		panic(engineError("channel is poison: " + c.why))
	}
	panic(engineError(fmt.Sprintf("not a channel: %T", v)))
}

func sendReady(c *chanV) bool {
	if c == nil {
		return false
	}
	return c.closed || firstLive(c.recvq) != nil || len(c.buf) < c.capn
}

func recvReady(c *chanV) bool {
	if c == nil {
		return false
	}
	return len(c.buf) > 0 || firstLive(c.sendq) != nil || c.closed
}

// doSendNow performs a send that is known to be ready.
func doSendNow(c *chanV, v value) {
	if c.closed {
		panic(targetPanic{v: iface{t: rtErrType, v: "send on closed channel"}})
	}
	if rq := firstLive(c.recvq); rq != nil {
		rq.val, rq.ok, rq.done = v, true, true
		if rq.sel != nil {
			rq.sel.fired = rq.idx
		}
		c.recvq = prune(c.recvq)
		return
	}
	c.buf = append(c.buf, v)
}

// doRecvNow performs a receive that is known to be ready.
func doRecvNow(c *chanV) (value, bool) {
	if len(c.buf) > 0 {
		v := c.buf[0]
		c.buf = append([]value(nil), c.buf[1:]...)
		if sq := firstLive(c.sendq); sq != nil {
			c.buf = append(c.buf, sq.val)
			sq.done = true
			if sq.sel != nil {
				sq.sel.fired = sq.idx
			}
			c.sendq = prune(c.sendq)
		}
		return v, true
	}
	if sq := firstLive(c.sendq); sq != nil {
		sq.done = true
		if sq.sel != nil {
			sq.sel.fired = sq.idx
		}
		c.sendq = prune(c.sendq)
		return sq.val, true
	}
	return nil, false // closed
}

func chanSend(fr *frame, cv value, v value) {
	c := asChan(cv)
	v = copyVal(v)
	visibleOp(fr, "send")
	if c == nil {
		blockUntil(fr, "send on nil chan", func() bool { return false })
	}
	if sendReady(c) {
		doSendNow(c, v)
		return
	}
	sd := &sudog{g: fr.i.curG, val: v}
	c.sendq = append(c.sendq, sd)
	blockUntil(fr, "chan send", func() bool { return sd.done || c.closed })
	if !sd.done {
		sd.done = true
		c.sendq = prune(c.sendq)
		panic(targetPanic{v: iface{t: rtErrType, v: "send on closed channel"}})
	}
}

func chanRecv(fr *frame, instr *ssa.UnOp, cv value) value {
	c := asChan(cv)
	elemT := instr.X.Type().Underlying().(*types.Chan).Elem()
	visibleOp(fr, "recv")
	if c == nil {
		blockUntil(fr, "recv on nil chan", func() bool { return false })
	}
	var v value
	var ok bool
	if recvReady(c) {
		v, ok = doRecvNow(c)
	} else {
		sd := &sudog{g: fr.i.curG}
		c.recvq = append(c.recvq, sd)
		blockUntil(fr, "chan recv", func() bool { return sd.done || c.closed })
		if sd.done {
			v, ok = sd.val, true
		} else {
			sd.done = true
			c.recvq = prune(c.recvq)
		}
	}
	if !ok {
		v = zero(elemT)
	}
	if instr.CommaOk {
		return tuple{v, ok}
	}
	return v
}

func chanClose(fr *frame, cv value) {
	c := asChan(cv)
	if c == nil {
		panic(targetPanic{v: iface{t: rtErrType, v: "close of nil channel"}})
	}
	if c.closed {
		panic(targetPanic{v: iface{t: rtErrType, v: "close of closed channel"}})
	}
	c.closed = true
	visibleOp(fr, "close")
}

func doSelect(fr *frame, instr *ssa.Select) value {
	m := fr.i
	type scase struct {
		c    *chanV
		send bool
		v    value
	}
	cases := make([]scase, len(instr.States))
	for i, st := range instr.States {
		cases[i].c = asChan(fr.get(st.Chan))
		if st.Dir == types.SendOnly {
			cases[i].send = true
			cases[i].v = copyVal(fr.get(st.Send))
		}
	}
	visibleOp(fr, "select")
	ready := func() []int {
		var r []int
		for i, sc := range cases {
			if sc.c == nil {
				continue
			}
			if sc.send && sendReady(sc.c) || !sc.send && recvReady(sc.c) {
				r = append(r, i)
			}
		}
		return r
	}
	chosen := -1
	var recvVal value
	recvOk := false
	perform := func(i int) {
		chosen = i
		if cases[i].send {
			doSendNow(cases[i].c, cases[i].v)
		} else {
			recvVal, recvOk = doRecvNow(cases[i].c)
		}
	}
	pickReady := func(r []int) int {
		if len(r) == 1 {
			return r[0]
		}
		alts := make([]*Term, len(r))
		for i := range alts {
			alts[i] = termTrue
		}
		return r[m.path.decide(alts, true)]
	}
	if r := ready(); len(r) > 0 {
		perform(pickReady(r))
	} else if instr.Blocking {
		sel := &selState{fired: -1}
		var mine []*sudog
		for i, sc := range cases {
			if sc.c == nil {
				continue
			}
			sd := &sudog{g: m.curG, sel: sel, idx: i, val: sc.v}
			mine = append(mine, sd)
			if sc.send {
				sc.c.sendq = append(sc.c.sendq, sd)
			} else {
				sc.c.recvq = append(sc.c.recvq, sd)
			}
		}
		blockUntil(fr, "select", func() bool { return sel.fired >= 0 || len(ready()) > 0 })
		if sel.fired >= 0 {
			chosen = sel.fired
			for _, sd := range mine {
				if sd.idx == chosen && !cases[chosen].send {
					recvVal, recvOk = sd.val, sd.ok
				}
			}
		} else {
			sel.fired = -2 // withdraw
			perform(pickReady(ready()))
		}
		for _, sd := range mine {
			sd.done = true
		}
		for _, sc := range cases {
			if sc.c != nil {
				sc.c.sendq = prune(sc.c.sendq)
				sc.c.recvq = prune(sc.c.recvq)
			}
		}
	}
	r := tuple{chosen, recvOk}
	for i, st := range instr.States {
		if st.Dir == types.RecvOnly {
			var v value
			if i == chosen && recvOk {
				v = recvVal
			} else {
				v = zero(st.Chan.Type().Underlying().(*types.Chan).Elem())
			}
			r = append(r, v)
		}
	}
	return r
}
