// gosym: operators over possibly-symbolic values.
package main

import (
	"bytes"
	"fmt"
	"go/token"
	"go/types"
	"os"

	"golang.org/x/tools/go/ssa"
)

func checkPoison(op string, vs ...value) {
	for _, v := range vs {
		if p, ok := v.(poison); ok {
			panic(engineError(op + " on poison value: " + p.why))
		}
	}
}

func basicOf(t types.Type) *types.Basic {
	if t == nil {
		return nil
	}
	b, _ := t.Underlying().(*types.Basic)
	return b
}

func isIntegerType(t types.Type) bool {
	b := basicOf(t)
	return b != nil && b.Info()&types.IsInteger != 0
}

// liftIndex converts any integer value to an Int-sorted term (signed interpretation).
func liftIndex(v value) *Term {
	switch x := v.(type) {
	case *Term:
		if x.S.K == SInt {
			return x
		}
		return bvToInt(x, true)
	case poison:
		panic(engineError("index is poison: " + x.why))
	}
	return mkInt(asInt64(v))
}

// liftAs lifts v to a term whose sort fits Go type t (used when one side is native).
func liftInt(v value, signed bool) *Term {
	t := lift(v)
	return t
}

func (fr *frame) binop(op token.Token, t types.Type, ty types.Type, x, y value) value {
	checkPoison("operator "+op.String(), x, y)
	switch op {
	case token.EQL:
		return eqnil(t, x, y)
	case token.NEQ:
		r := eqnil(t, x, y)
		if b, ok := r.(bool); ok {
			return !b
		}
		return boolValue(tNot(r.(*Term)))
	}
	if !isSym(x) && !isSym(y) {
		switch op {
		case token.QUO, token.REM:
			if isIntegerType(t) && asInt64(y) == 0 {
				if u, ok := y.(uint64); !ok || u == 0 {
					panic(runtimePanic("integer divide by zero"))
				}
			}
		}
		return concreteBinop(op, t, x, y)
	}
	b := basicOf(t)
	if b == nil {
		panic(engineError(fmt.Sprintf("symbolic binop %s on type %v", op, t)))
	}
	tx, tyy := lift(x), lift(y)
	switch {
	case b.Info()&types.IsString != 0:
		switch op {
		case token.ADD:
			return concretize(fr.nameTerm(strConcat(tx, tyy)), t)
		case token.LSS:
			return boolValue(strLt(tx, tyy))
		case token.LEQ:
			return boolValue(strLe(tx, tyy))
		case token.GTR:
			return boolValue(strLt(tyy, tx))
		case token.GEQ:
			return boolValue(strLe(tyy, tx))
		}
	case b.Info()&types.IsFloat != 0:
		switch op {
		case token.ADD:
			return concretize(fpBin("fp.add", tx, tyy), t)
		case token.SUB:
			return concretize(fpBin("fp.sub", tx, tyy), t)
		case token.MUL:
			return concretize(fpBin("fp.mul", tx, tyy), t)
		case token.QUO:
			return concretize(fpBin("fp.div", tx, tyy), t)
		case token.LSS:
			return boolValue(fpCmp("fp.lt", tx, tyy))
		case token.LEQ:
			return boolValue(fpCmp("fp.leq", tx, tyy))
		case token.GTR:
			return boolValue(fpCmp("fp.gt", tx, tyy))
		case token.GEQ:
			return boolValue(fpCmp("fp.geq", tx, tyy))
		}
	case b.Info()&types.IsInteger != 0:
		w, signed, _ := basicWidth(b.Kind())
		if op == token.SHL || op == token.SHR {
			return concretize(fr.symShift(op, tx, tyy, w, signed, ty), t)
		}
		// Int-sorted (string-derived) arithmetic stays in Int where possible
		if tx.S.K == SInt || tyy.S.K == SInt {
			isArith := op == token.ADD || op == token.SUB || op == token.MUL || op == token.QUO || op == token.REM ||
				op == token.LSS || op == token.LEQ || op == token.GTR || op == token.GEQ
			canInt := (tx.S.K == SInt || tx.IsConst()) && (tyy.S.K == SInt || tyy.IsConst())
			if isArith && canInt {
				if tx.S.K != SInt {
					tx = bvToInt(tx, signed)
				}
				if tyy.S.K != SInt {
					tyy = bvToInt(tyy, signed)
				}
				switch op {
				case token.ADD:
					return concretize(intAdd(tx, tyy), t)
				case token.SUB:
					return concretize(intSub(tx, tyy), t)
				case token.MUL:
					return concretize(intMul(tx, tyy), t)
				case token.QUO, token.REM:
					if fr.decideValue(boolValue(tEq(tyy, mkInt(0)))) {
						panic(runtimePanic("integer divide by zero"))
					}
					if op == token.QUO {
						return concretize(intQuoGo(tx, tyy), t)
					}
					return concretize(intRemGo(tx, tyy), t)
				case token.LSS:
					return boolValue(intCmp("<", tx, tyy))
				case token.LEQ:
					return boolValue(intCmp("<=", tx, tyy))
				case token.GTR:
					return boolValue(intCmp(">", tx, tyy))
				case token.GEQ:
					return boolValue(intCmp(">=", tx, tyy))
				}
			}
			if tx.S.K == SInt {
				tx = intToBV(tx, w)
			}
			if tyy.S.K == SInt {
				tyy = intToBV(tyy, w)
			}
		}
		if tx.S.W != w {
			tx = bvResize(tx, w, signed)
		}
		if tyy.S.W != w {
			tyy = bvResize(tyy, w, signed)
		}
		switch op {
		case token.ADD:
			return concretize(bvBin("bvadd", tx, tyy), t)
		case token.SUB:
			return concretize(bvBin("bvsub", tx, tyy), t)
		case token.MUL:
			return concretize(bvBin("bvmul", tx, tyy), t)
		case token.QUO, token.REM:
			if fr.decideValue(boolValue(tEq(tyy, mkBV(0, w)))) {
				panic(runtimePanic("integer divide by zero"))
			}
			var o string
			switch {
			case op == token.QUO && signed:
				o = "bvsdiv"
			case op == token.QUO:
				o = "bvudiv"
			case signed:
				o = "bvsrem"
			default:
				o = "bvurem"
			}
			return concretize(bvBin(o, tx, tyy), t)
		case token.AND:
			return concretize(bvBin("bvand", tx, tyy), t)
		case token.OR:
			return concretize(bvBin("bvor", tx, tyy), t)
		case token.XOR:
			return concretize(bvBin("bvxor", tx, tyy), t)
		case token.AND_NOT:
			return concretize(bvBin("bvand", tx, bvNot(tyy)), t)
		case token.LSS:
			if signed {
				return boolValue(bvCmp("bvslt", tx, tyy))
			}
			return boolValue(bvCmp("bvult", tx, tyy))
		case token.LEQ:
			if signed {
				return boolValue(bvCmp("bvsle", tx, tyy))
			}
			return boolValue(bvCmp("bvule", tx, tyy))
		case token.GTR:
			if signed {
				return boolValue(bvCmp("bvsgt", tx, tyy))
			}
			return boolValue(bvCmp("bvugt", tx, tyy))
		case token.GEQ:
			if signed {
				return boolValue(bvCmp("bvsge", tx, tyy))
			}
			return boolValue(bvCmp("bvuge", tx, tyy))
		}
	}
	panic(engineError(fmt.Sprintf("invalid symbolic binary op: %T %s %T (type %v)", x, op, y, t)))
}

func (fr *frame) symShift(op token.Token, tx, ty *Term, w int, signed bool, yType types.Type) *Term {
	if tx.S.K == SInt {
		tx = intToBV(tx, w)
	}
	ySigned := false
	if yb := basicOf(yType); yb != nil {
		_, ySigned, _ = basicWidth(yb.Kind())
	}
	if ty.S.K == SInt {
		ty = intToBV(ty, 64)
	}
	if ySigned {
		if fr.decideValue(boolValue(bvCmp("bvslt", ty, mkBV(0, ty.S.W)))) {
			panic(runtimePanic("negative shift amount"))
		}
	}
	// widen both to 64 bits so an oversized count is not truncated away
	y64 := bvResize(ty, 64, false)
	big := bvCmp("bvuge", y64, mkBV(uint64(w), 64))
	yw := bvResize(y64, w, false)
	var shifted, over *Term
	switch {
	case op == token.SHL:
		shifted, over = bvBin("bvshl", tx, yw), mkBV(0, w)
	case signed:
		shifted = bvBin("bvashr", tx, yw)
		over = tIte(bvCmp("bvslt", tx, mkBV(0, w)), mkBV(^uint64(0), w), mkBV(0, w))
	default:
		shifted, over = bvBin("bvlshr", tx, yw), mkBV(0, w)
	}
	return tIte(big, over, shifted)
}

// eqnil returns the comparison x == y using the equivalence relation
// appropriate for type t.
func eqnil(t types.Type, x, y value) value {
	switch t.Underlying().(type) {
	case *types.Map, *types.Signature, *types.Slice:
		// one of the operands must be a literal nil.
		switch x := x.(type) {
		case *mapV:
			return (x != nil) == (y.(*mapV) != nil)
		case *ssa.Function:
			switch y := y.(type) {
			case *ssa.Function:
				return (x != nil) == (y != nil)
			case *closure, *nativeClosure:
				return x != nil
			}
		case *closure:
			return (x != nil) == (y.(*ssa.Function) != nil)
		case *nativeClosure:
			return (x != nil) == (y.(*ssa.Function) != nil)
		case []value:
			return (x != nil) == (y.([]value) != nil)
		}
		panic(engineError(fmt.Sprintf("eqnil(%s): illegal dynamic type: %T", t, x)))
	}
	return equals(t, x, y)
}

func (fr *frame) unop(instr *ssa.UnOp, x value) value {
	switch instr.Op {
	case token.ARROW: // receive
		return chanRecv(fr, instr, x)
	case token.MUL:
		p, ok := x.(*value)
		if !ok {
			if po, isP := x.(poison); isP {
				panic(engineError("load through poison pointer: " + po.why + " at " + fr.pos(instr.Pos())))
			}
			panic(engineError(fmt.Sprintf("load through %T", x)))
		}
		if p == nil {
			panic(targetPanic{v: iface{t: rtErrType, v: "runtime error: invalid memory address or nil pointer dereference"}, pos: fr.pos(instr.Pos())})
		}
		return load(deref(instr.X.Type()), p)
	}
	checkPoison("unary "+instr.Op.String(), x)
	if tm, ok := x.(*Term); ok {
		t := instr.Type()
		switch instr.Op {
		case token.NOT:
			return boolValue(tNot(tm))
		case token.SUB:
			switch tm.S.K {
			case SBV:
				return concretize(bvNeg(tm), t)
			case SInt:
				return concretize(intNeg(tm), t)
			case SFP:
				return concretize(fpNeg(tm), t)
			}
		case token.XOR:
			if tm.S.K == SInt {
				w, _, _ := basicWidth(basicOf(t).Kind())
				tm = intToBV(tm, w)
			}
			return concretize(bvNot(tm), t)
		}
		panic(engineError(fmt.Sprintf("invalid symbolic unary op %s", instr.Op)))
	}
	switch instr.Op {
	case token.SUB:
		switch x := x.(type) {
		case int:
			return -x
		case int8:
			return -x
		case int16:
			return -x
		case int32:
			return -x
		case int64:
			return -x
		case uint:
			return -x
		case uint8:
			return -x
		case uint16:
			return -x
		case uint32:
			return -x
		case uint64:
			return -x
		case uintptr:
			return -x
		case float32:
			return -x
		case float64:
			return -x
		case complex64:
			return -x
		case complex128:
			return -x
		}
	case token.NOT:
		return !x.(bool)
	case token.XOR:
		switch x := x.(type) {
		case int:
			return ^x
		case int8:
			return ^x
		case int16:
			return ^x
		case int32:
			return ^x
		case int64:
			return ^x
		case uint:
			return ^x
		case uint8:
			return ^x
		case uint16:
			return ^x
		case uint32:
			return ^x
		case uint64:
			return ^x
		case uintptr:
			return ^x
		}
	}
	panic(engineError(fmt.Sprintf("invalid unary op %s %T", instr.Op, x)))
}

// symStringIndex yields s[i] (a byte) for a symbolic string and/or index.
func (fr *frame) symStringIndex(s *Term, idx *Term) value {
	n := strLen(s)
	inRange := tAnd(intCmp(">=", idx, mkInt(0)), intCmp("<", idx, n))
	if !fr.decideValue(boolValue(inRange)) {
		panic(runtimePanic("index out of range (symbolic string index)"))
	}
	return concretize(intToBV(strToCode(strAt(s, idx)), 8), types.Typ[types.Uint8])
}

// strLenChoices forks over the length of a symbolic string and returns it.
func (fr *frame) concreteStrLen(s *Term) int {
	if s.IsConst() {
		return len(s.Str)
	}
	if fr.i.path == nil {
		panic(engineError("symbolic string length outside a path"))
	}
	k := fr.i.path.decideIndex(strLen(s), fr.i.path.strBudget()+1)
	if k < 0 {
		panic(pathAbort{reason: "string longer than budget"})
	}
	return k
}

// stringBytes converts a symbolic string into a slice of byte values (forking on its length).
func (fr *frame) stringBytes(s *Term) []value {
	n := fr.concreteStrLen(s)
	out := make([]value, n)
	for i := 0; i < n; i++ {
		out[i] = concretize(intToBV(strToCode(strAt(s, mkInt(int64(i)))), 8), types.Typ[types.Uint8])
	}
	return out
}

func bytesToStringTerm(xs []value) value {
	allConc := true
	for _, b := range xs {
		if isSym(b) {
			allConc = false
		}
	}
	if allConc {
		bs := make([]byte, len(xs))
		for i, b := range xs {
			bs[i] = b.(byte)
		}
		return string(bs)
	}
	parts := make([]*Term, len(xs))
	for i, b := range xs {
		switch b := b.(type) {
		case *Term:
			parts[i] = strFromCode(bvToInt(b, false))
		case byte:
			parts[i] = mkStr(string([]byte{b}))
		default:
			panic(engineError(fmt.Sprintf("byte slice element %T", b)))
		}
	}
	return strConcat(parts...)
}

func (fr *frame) conv(t_dst, t_src types.Type, x value) value {
	if _, ok := x.(poison); ok {
		return x
	}
	ut_src := t_src.Underlying()
	ut_dst := t_dst.Underlying()
	// []byte/[]rune -> string with symbolic elements
	if sl, ok := ut_src.(*types.Slice); ok {
		if db := basicOf(t_dst); db != nil && db.Kind() == types.String {
			xs := x.([]value)
			if eb := basicOf(sl.Elem()); eb != nil && eb.Kind() == types.Byte {
				return bytesToStringTerm(xs)
			}
			for _, e := range xs {
				if isSym(e) {
					// []rune with symbolic runes: ASCII assumption
					parts := make([]*Term, len(xs))
					for i, r := range xs {
						if tr, ok := r.(*Term); ok {
							parts[i] = strFromCode(bvToInt(tr, true))
						} else {
							parts[i] = mkStr(string(r.(rune)))
						}
					}
					return strConcat(parts...)
				}
			}
		}
	}
	tm, ok := x.(*Term)
	if !ok {
		return concreteConv(t_dst, t_src, x)
	}
	sb, db := basicOf(t_src), basicOf(t_dst)
	switch {
	case tm.S.K == SStr:
		if db != nil && db.Kind() == types.String {
			return tm
		}
		if sl, ok := ut_dst.(*types.Slice); ok {
			bs := fr.stringBytes(tm)
			if eb := basicOf(sl.Elem()); eb != nil && eb.Kind() == types.Rune {
				// ASCII assumption: one rune per byte
				out := make([]value, len(bs))
				for i, b := range bs {
					if bt, ok := b.(*Term); ok {
						out[i] = bvResize(bt, 32, false)
					} else {
						out[i] = rune(b.(byte))
					}
				}
				return out
			}
			return bs
		}
	case tm.S.K == SBV || tm.S.K == SInt:
		if db == nil {
			break
		}
		_, srcSigned, _ := basicWidth(sb.Kind())
		switch {
		case db.Info()&types.IsInteger != 0:
			w, _, _ := basicWidth(db.Kind())
			if tm.S.K == SInt {
				if w >= 32 {
					return tm // stays a small mathematical int (no-overflow assumption, DESIGN §2.2)
				}
				return concretize(intToBV(tm, w), t_dst)
			}
			return concretize(bvResize(tm, w, srcSigned), t_dst)
		case db.Info()&types.IsFloat != 0:
			if db.Kind() != types.Float64 {
				panic(engineError("symbolic float32 unsupported"))
			}
			if tm.S.K == SInt {
				tm = intToBV(tm, 64)
				srcSigned = true
			}
			return fpFromBV(tm, srcSigned)
		case db.Kind() == types.String:
			if tm.S.K == SBV {
				tm = bvToInt(tm, srcSigned)
			}
			return strFromCode(tm)
		}
	case tm.S.K == SFP:
		if db == nil {
			break
		}
		switch {
		case db.Info()&types.IsInteger != 0:
			w, signed, _ := basicWidth(db.Kind())
			return concretize(fpToBV(tm, w, signed), t_dst)
		case db.Kind() == types.Float64:
			return tm
		}
	case tm.S.K == SBool:
		return tm
	}
	panic(engineError(fmt.Sprintf("unsupported symbolic conversion: %s -> %s", t_src, t_dst)))
}

// slice returns x[lo:hi:max].  Any of lo, hi and max may be nil.
func (fr *frame) slice(instr *ssa.Slice, x, lo, hi, max value) value {
	checkPoison("slice", x, lo, hi, max)
	// strings
	_, xIsTerm := x.(*Term)
	xs, xIsStr := x.(string)
	if xIsTerm || xIsStr {
		symbolic := xIsTerm || isSym(lo) || isSym(hi)
		if !symbolic {
			l, h := int64(0), int64(len(xs))
			if lo != nil {
				l = asInt64(lo)
			}
			if hi != nil {
				h = asInt64(hi)
			}
			if l < 0 || h > int64(len(xs)) || l > h {
				panic(runtimePanic(fmt.Sprintf("slice bounds out of range [%d:%d] with length %d", l, h, len(xs))))
			}
			return xs[l:h]
		}
		s := lift(x)
		n := strLen(s)
		l, h := mkInt(0), n
		if lo != nil {
			l = liftIndex(lo)
		}
		if hi != nil {
			h = liftIndex(hi)
		}
		ok := tAnd(intCmp(">=", l, mkInt(0)), intCmp("<=", l, h), intCmp("<=", h, n))
		if !fr.decideValue(boolValue(ok)) {
			panic(targetPanic{v: iface{t: rtErrType, v: "runtime error: slice bounds out of range (symbolic)"}, pos: fr.pos(instr.Pos())})
		}
		return fr.strV(strSubstr(s, l, intSub(h, l)))
	}

	var Len, Cap int
	var base []value
	switch x := x.(type) {
	case []value:
		Len, Cap, base = len(x), cap(x), x
	case *value: // *array
		if x == nil {
			panic(targetPanic{v: iface{t: rtErrType, v: "runtime error: invalid memory address or nil pointer dereference"}, pos: fr.pos(instr.Pos())})
		}
		a := (*x).(array)
		Len, Cap, base = len(a), cap(a), []value(a)
	default:
		panic(engineError(fmt.Sprintf("slice: unexpected X type: %T", x)))
	}
	l, h, m := 0, Len, Cap
	if lo != nil {
		l = fr.concreteBound(lo, Cap)
	}
	if hi != nil {
		h = fr.concreteBound(hi, Cap)
	}
	if max != nil {
		m = fr.concreteBound(max, Cap)
	}
	if l < 0 || l > h || h > m || m > Cap {
		panic(targetPanic{v: iface{t: rtErrType, v: fmt.Sprintf("runtime error: slice bounds out of range [%d:%d:%d] with capacity %d", l, h, m, Cap)}, pos: fr.pos(instr.Pos())})
	}
	if base == nil {
		return []value(nil)
	}
	return base[l:h:m]
}

// concreteBound resolves a slice bound in [0,cap]; out of range panics.
func (fr *frame) concreteBound(v value, capn int) int {
	if t, ok := v.(*Term); ok && !t.IsConst() {
		k := fr.i.path.decideIndex(liftIndexKeep(t), capn+1)
		if k < 0 {
			panic(runtimePanic("slice bounds out of range (symbolic)"))
		}
		return k
	}
	if t, ok := v.(*Term); ok {
		if t.S.K == SInt {
			return int(t.I)
		}
		return int(sext(t.U, t.S.W))
	}
	i := asInt64(v)
	if i < 0 || i > int64(capn) {
		panic(runtimePanic(fmt.Sprintf("slice bounds out of range [%d] with capacity %d", i, capn)))
	}
	return int(i)
}

func liftIndexKeep(t *Term) *Term { return t }

// lookup returns x[idx] where x is a map.
func (fr *frame) lookup(instr *ssa.Lookup, x, idx value) value {
	checkPoison("map lookup", x, idx)
	mv, ok := x.(*mapV)
	if !ok {
		panic(engineError(fmt.Sprintf("unexpected x type in Lookup: %T", x)))
	}
	var v value
	e := mv.find(fr, idx)
	if e != nil {
		v = copyVal(e.val)
	} else {
		v = zero(instr.X.Type().Underlying().(*types.Map).Elem())
	}
	if instr.CommaOk {
		v = tuple{v, e != nil}
	}
	return v
}

func typeAssert(fr *frame, instr *ssa.TypeAssert, itf iface) value {
	var v value
	err := ""
	if itf.t == nil {
		err = fmt.Sprintf("interface conversion: interface is nil, not %s", instr.AssertedType)
	} else if idst, ok := instr.AssertedType.Underlying().(*types.Interface); ok {
		v = itf
		err = checkInterface(idst, itf)
	} else if types.Identical(itf.t, instr.AssertedType) {
		v = itf.v // extract value
	} else {
		err = fmt.Sprintf("interface conversion: interface is %s, not %s", itf.t, instr.AssertedType)
	}
	if err != "" {
		if !instr.CommaOk {
			panic(targetPanic{v: iface{t: rtErrType, v: "runtime error: " + err}, pos: fr.pos(instr.Pos())})
		}
		return tuple{zero(instr.AssertedType), false}
	}
	if instr.CommaOk {
		return tuple{v, true}
	}
	return v
}

func (fr *frame) symMinMax(isMin bool, t types.Type, x, y value) value {
	if !isSym(x) && !isSym(y) {
		if isMin {
			return cmin(x, y)
		}
		return cmax(x, y)
	}
	op := token.GTR
	if isMin {
		op = token.LSS
	}
	c := fr.binop(op, t, t, y, x) // y<x (min) / y>x (max)
	if b, ok := c.(bool); ok {
		if b {
			return y
		}
		return x
	}
	tx, ty := lift(x), lift(y)
	if tx.S != ty.S {
		_, signed, _ := basicWidth(basicOf(t).Kind())
		tx, ty = reconcile(tx, ty, signed)
	}
	return tIte(c.(*Term), ty, tx)
}

func callBuiltin(caller *frame, fn *ssa.Builtin, args []value) value {
	m := caller.i
	switch fn.Name() {
	case "append":
		if len(args) == 1 {
			return args[0]
		}
		checkPoison("append", args[0], args[1])
		var extra []value
		switch a := args[1].(type) {
		case string:
			for i := 0; i < len(a); i++ {
				extra = append(extra, a[i])
			}
		case *Term:
			extra = caller.stringBytes(a)
		case []value:
			extra = a
		default:
			panic(engineError(fmt.Sprintf("append: %T", args[1])))
		}
		dst := args[0].([]value)
		if len(dst)+len(extra) <= cap(dst) && len(extra) > 0 {
			// in-place write into spare capacity: journal the overwritten region
			region := dst[len(dst) : len(dst)+len(extra)]
			for i := range region {
				m.jlog(undoRec{addr: &region[i], old: region[i]})
			}
		}
		for _, e := range extra {
			dst = append(dst, copyVal(e))
		}
		return dst

	case "copy": // copy([]T, []T) int or copy([]byte, string) int
		src := args[1]
		switch s := src.(type) {
		case string:
			var bs []value
			for i := 0; i < len(s); i++ {
				bs = append(bs, s[i])
			}
			src = bs
		case *Term:
			src = caller.stringBytes(s)
		}
		dst := args[0].([]value)
		s := src.([]value)
		n := len(dst)
		if len(s) < n {
			n = len(s)
		}
		tmp := make([]value, n)
		for i := 0; i < n; i++ {
			tmp[i] = copyVal(s[i])
		}
		for i := 0; i < n; i++ {
			m.jlog(undoRec{addr: &dst[i], old: dst[i]})
			dst[i] = tmp[i]
		}
		return n

	case "close": // close(chan T)
		chanClose(caller, args[0])
		return nil

	case "delete": // delete(map[K]value, K)
		checkPoison("delete", args[0], args[1])
		args[0].(*mapV).remove(caller, args[1])
		return nil

	case "clear":
		switch x := args[0].(type) {
		case *mapV:
			x.clear(caller)
		case []value:
			var elemT types.Type
			if sl, ok := fn.Type().(*types.Signature).Params().At(0).Type().Underlying().(*types.Slice); ok {
				elemT = sl.Elem()
			}
			for i := range x {
				m.jlog(undoRec{addr: &x[i], old: x[i]})
				x[i] = zero(elemT)
			}
		}
		return nil

	case "print", "println": // print(any, ...)
		ln := fn.Name() == "println"
		var buf bytes.Buffer
		for i, arg := range args {
			if i > 0 && ln {
				buf.WriteRune(' ')
			}
			buf.WriteString(toString(arg))
		}
		if ln {
			buf.WriteRune('\n')
		}
		os.Stderr.Write(buf.Bytes())
		return nil

	case "len":
		switch x := args[0].(type) {
		case string:
			return len(x)
		case *Term:
			return concretize(strLen(x), types.Typ[types.Int])
		case array:
			return len(x)
		case *value:
			return len((*x).(array))
		case []value:
			return len(x)
		case *mapV:
			return x.length()
		case *chanV:
			return chanLen(x)
		case poison:
			panic(engineError("len of poison: " + x.why))
		default:
			panic(engineError(fmt.Sprintf("len: illegal operand: %T", x)))
		}

	case "cap":
		switch x := args[0].(type) {
		case array:
			return cap(x)
		case *value:
			return cap((*x).(array))
		case []value:
			return cap(x)
		case *chanV:
			return chanCap(x)
		default:
			panic(engineError(fmt.Sprintf("cap: illegal operand: %T", x)))
		}

	case "min", "max":
		t := fn.Type().(*types.Signature).Params().At(0).Type()
		x := args[0]
		for _, a := range args[1:] {
			x = caller.symMinMax(fn.Name() == "min", t, x, a)
		}
		return x

	case "real", "imag", "complex":
		panic(engineError("complex numbers unsupported"))

	case "panic":
		panic(targetPanic{v: args[0]})

	case "recover":
		return doRecover(caller)

	case "ssa:wrapnilchk":
		recv := args[0]
		if p, ok := recv.(*value); ok && p == nil {
			recvType := args[1]
			methodName := args[2]
			panic(runtimePanic(fmt.Sprintf("value method (%s).%s called using nil *%s pointer",
				recvType, methodName, recvType)))
		}
		return recv

	case "ssa:deferstack":
		return &caller.defers
	}

	panic(engineError("unknown built-in: " + fn.Name()))
}

func (fr *frame) rangeIter(instr *ssa.Range, x value) iter {
	switch x := x.(type) {
	case *mapV:
		if x == nil {
			return &mapRangeIter{}
		}
		snap := append([]*mapEntry(nil), x.entries...)
		if fr.i.path != nil && fr.i.path.permuteMaps && len(snap) > 1 && len(snap) <= 4 {
			perm := fr.i.path.decidePermutation(len(snap))
			p := make([]*mapEntry, len(snap))
			for i, j := range perm {
				p[i] = snap[j]
			}
			snap = p
		}
		return &mapRangeIter{snap: snap}
	case string:
		return &stringIter{s: x}
	case *Term:
		bs := fr.stringBytes(x)
		return &symStringIter{bs: bs}
	case poison:
		panic(engineError("range over poison: " + x.why))
	}
	panic(engineError(fmt.Sprintf("cannot range over %T", x)))
}

// symStringIter ranges over a symbolic string under the ASCII assumption.
type symStringIter struct {
	bs []value
	i  int
}

func (it *symStringIter) next() tuple {
	if it.i >= len(it.bs) {
		return tuple{false, nil, nil}
	}
	b := it.bs[it.i]
	var r value
	if bt, ok := b.(*Term); ok {
		r = bvResize(bt, 32, false)
	} else {
		r = rune(b.(byte))
	}
	t := tuple{true, it.i, r}
	it.i++
	return t
}
