// gosym: maps as insertion-ordered association lists.
//
// Entries have pairwise distinct keys *under the current path condition*:
// operations with a symbolic key decide equality against each existing entry
// (forking on the decision), so structure stays concrete.
package main

import (
	"go/types"
)

type mapEntry struct {
	key, val value
	deleted  bool
}

type mapV struct {
	keyType types.Type
	entries []*mapEntry
	index   map[string]*mapEntry // concrete keys only
	nsym    int                  // live entries with a symbolic key
}

func makeMap(kt types.Type) *mapV {
	return &mapV{keyType: kt, index: map[string]*mapEntry{}}
}

func (m *mapV) length() int {
	if m == nil {
		return 0
	}
	return len(m.entries)
}

// find returns the entry for key k, deciding symbolic equalities through fr.
func (m *mapV) find(fr *frame, k value) *mapEntry {
	if m == nil {
		return nil
	}
	ck, concrete := concreteKey(k)
	if concrete {
		if e := m.index[ck]; e != nil {
			return e
		}
		if m.nsym == 0 {
			return nil
		}
		// compare against symbolic-keyed entries only
		for _, e := range m.entries {
			if _, isConc := concreteKey(e.key); isConc {
				continue
			}
			if fr.decideValue(equals(m.keyType, e.key, k)) {
				return e
			}
		}
		return nil
	}
	for _, e := range m.entries {
		if fr.decideValue(equals(m.keyType, e.key, k)) {
			return e
		}
	}
	return nil
}

func (m *mapV) insert(fr *frame, k, v value) {
	mach := fr.i
	if e := m.find(fr, k); e != nil {
		old := e.val
		mach.jlog(undoRec{fn: func() { e.val = old }})
		e.val = v
		return
	}
	e := &mapEntry{key: k, val: v}
	ck, concrete := concreteKey(k)
	m.entries = append(m.entries, e)
	if concrete {
		m.index[ck] = e
	} else {
		m.nsym++
	}
	mach.jlog(undoRec{fn: func() {
		// remove e (it is the last live entry appended at this point in reverse replay)
		for i := len(m.entries) - 1; i >= 0; i-- {
			if m.entries[i] == e {
				m.entries = append(m.entries[:i:i], m.entries[i+1:]...)
				break
			}
		}
		if concrete {
			delete(m.index, ck)
		} else {
			m.nsym--
		}
	}})
}

func (m *mapV) remove(fr *frame, k value) {
	if m == nil {
		return
	}
	e := m.find(fr, k)
	if e == nil {
		return
	}
	mach := fr.i
	pos := -1
	for i, x := range m.entries {
		if x == e {
			pos = i
			break
		}
	}
	ck, concrete := concreteKey(e.key)
	old := m.entries
	m.entries = append(append([]*mapEntry{}, old[:pos]...), old[pos+1:]...)
	e.deleted = true
	if concrete {
		delete(m.index, ck)
	} else {
		m.nsym--
	}
	mach.jlog(undoRec{fn: func() {
		m.entries = old
		e.deleted = false
		if concrete {
			m.index[ck] = e
		} else {
			m.nsym++
		}
	}})
}

func (m *mapV) clear(fr *frame) {
	if m == nil {
		return
	}
	mach := fr.i
	old, oldIdx, oldN := m.entries, m.index, m.nsym
	for _, e := range old {
		e.deleted = true
	}
	m.entries, m.index, m.nsym = nil, map[string]*mapEntry{}, 0
	mach.jlog(undoRec{fn: func() {
		m.entries, m.index, m.nsym = old, oldIdx, oldN
		for _, e := range old {
			e.deleted = false
		}
	}})
}

type mapRangeIter struct {
	snap []*mapEntry
	i    int
}

func (it *mapRangeIter) next() tuple {
	for it.i < len(it.snap) {
		e := it.snap[it.i]
		it.i++
		if e.deleted {
			continue
		}
		return tuple{true, e.key, e.val}
	}
	return tuple{false, nil, nil}
}
