// Derived from golang.org/x/tools/go/ssa/interp (BSD-style licence, The Go Authors),
// extended with symbolic scalars (*Term), list-based maps, poison values.
package main

// Values
//
// All interpreter values are "boxed" in the empty interface, value.
// The range of possible dynamic types within value are:
//
// - bool, numbers, string        --- concrete scalars (native Go types)
// - *Term                        --- symbolic scalar (Bool, BitVec, Int, String, FP)
// - *mapV                        --- maps (nil pointer = nil map)
// - *chanV                       --- channels
// - []value                      --- slices
// - iface                        --- interfaces
// - structure, array             --- aggregates
// - *value                       --- pointers
// - *ssa.Function, *ssa.Builtin, *closure --- functions
// - tuple, iter
// - poison                       --- value of a global whose initialiser could not be executed
// - rtype                        --- result of reflect.TypeOf (concrete type only)

import (
	"bytes"
	"fmt"
	"go/types"
	"strings"
	"unsafe"

	"golang.org/x/tools/go/ssa"
)

type value any

type tuple []value

type array []value

type iface struct {
	t types.Type // never an "untyped" type
	v value
}

type structure []value

type iter interface {
	next() tuple
}

type closure struct {
	Fn  *ssa.Function
	Env []value
}

type bad struct{}

type poison struct{ why string }

type rtype struct {
	t types.Type
}

// unsafePtr models unsafe.Pointer conversions of *T: it simply remembers the pointer.
type unsafePtr struct {
	p *value
	t types.Type // pointee type at the time of conversion
}

func isSym(v value) bool {
	_, ok := v.(*Term)
	return ok
}

func deref(t types.Type) types.Type {
	if p, ok := t.Underlying().(*types.Pointer); ok {
		return p.Elem()
	}
	// core type for type params should not occur (generics are instantiated)
	panic(fmt.Sprintf("deref: not a pointer: %v", t))
}

// sameType is a nil-tolerant variant of types.Identical.
func sameType(x, y types.Type) bool {
	if x == nil {
		return y == nil
	}
	return y != nil && types.Identical(x, y)
}

func basicWidth(k types.BasicKind) (w int, signed bool, ok bool) {
	switch k {
	case types.Int, types.Int64:
		return 64, true, true
	case types.Int8:
		return 8, true, true
	case types.Int16:
		return 16, true, true
	case types.Int32, types.UntypedRune:
		return 32, true, true
	case types.UntypedInt:
		return 64, true, true
	case types.Uint, types.Uint64, types.Uintptr:
		return 64, false, true
	case types.Uint8:
		return 8, false, true
	case types.Uint16:
		return 16, false, true
	case types.Uint32:
		return 32, false, true
	}
	return 0, false, false
}

// lift converts a concrete scalar to a Term. For *Term it is the identity.
func lift(v value) *Term {
	switch x := v.(type) {
	case *Term:
		return x
	case bool:
		return mkBool(x)
	case int:
		return mkBV(uint64(x), 64)
	case int8:
		return mkBV(uint64(x), 8)
	case int16:
		return mkBV(uint64(x), 16)
	case int32:
		return mkBV(uint64(x), 32)
	case int64:
		return mkBV(uint64(x), 64)
	case uint:
		return mkBV(uint64(x), 64)
	case uint8:
		return mkBV(uint64(x), 8)
	case uint16:
		return mkBV(uint64(x), 16)
	case uint32:
		return mkBV(uint64(x), 32)
	case uint64:
		return mkBV(x, 64)
	case uintptr:
		return mkBV(uint64(x), 64)
	case float64:
		return mkFP(x)
	case float32:
		return mkFP(float64(x))
	case string:
		return mkStr(x)
	}
	panic(engineError(fmt.Sprintf("cannot lift %T to a term", v)))
}

// concretize turns a constant Term back into the native value of Go type t.
func concretize(tm *Term, t types.Type) value {
	if !tm.IsConst() {
		return tm
	}
	b, ok := t.Underlying().(*types.Basic)
	if !ok {
		return tm
	}
	switch tm.S.K {
	case SBool:
		return tm.B
	case SStr:
		return tm.Str
	case SFP:
		if b.Kind() == types.Float32 {
			return float32(tm.F)
		}
		return tm.F
	case SBV, SInt:
		var u uint64
		if tm.S.K == SBV {
			u = tm.U
			if _, signed, _ := basicWidth(b.Kind()); signed {
				u = uint64(sext(tm.U, tm.S.W))
			}
		} else {
			u = uint64(tm.I)
		}
		switch b.Kind() {
		case types.Int, types.UntypedInt:
			return int(u)
		case types.Int8:
			return int8(u)
		case types.Int16:
			return int16(u)
		case types.Int32, types.UntypedRune:
			return int32(u)
		case types.Int64:
			return int64(u)
		case types.Uint:
			return uint(u)
		case types.Uint8:
			return uint8(u)
		case types.Uint16:
			return uint16(u)
		case types.Uint32:
			return uint32(u)
		case types.Uint64:
			return u
		case types.Uintptr:
			return uintptr(u)
		}
	}
	return tm
}

// symBool converts a bool-ish value to a Term.
func asBoolTerm(v value) *Term {
	switch x := v.(type) {
	case bool:
		return mkBool(x)
	case *Term:
		return x
	}
	panic(engineError(fmt.Sprintf("not a boolean: %T", v)))
}

// boolValue folds constant terms back to native bools.
func boolValue(t *Term) value {
	if t.IsConst() {
		return t.B
	}
	return t
}

// equals returns x == y (Go's equivalence for type t) as a bool or a Bool *Term.
func equals(t types.Type, x, y value) value {
	if isSym(x) || isSym(y) {
		if _, ok := x.(poison); ok {
			panic(engineError("comparison of poison value: " + x.(poison).why))
		}
		if _, ok := y.(poison); ok {
			panic(engineError("comparison of poison value: " + y.(poison).why))
		}
		return boolValue(symEq(lift(x), lift(y)))
	}
	switch x := x.(type) {
	case bool:
		return x == y.(bool)
	case int:
		return x == y.(int)
	case int8:
		return x == y.(int8)
	case int16:
		return x == y.(int16)
	case int32:
		return x == y.(int32)
	case int64:
		return x == y.(int64)
	case uint:
		return x == y.(uint)
	case uint8:
		return x == y.(uint8)
	case uint16:
		return x == y.(uint16)
	case uint32:
		return x == y.(uint32)
	case uint64:
		return x == y.(uint64)
	case uintptr:
		return x == y.(uintptr)
	case float32:
		return x == y.(float32)
	case float64:
		return x == y.(float64)
	case complex64:
		return x == y.(complex64)
	case complex128:
		return x == y.(complex128)
	case string:
		return x == y.(string)
	case *value:
		return x == y.(*value)
	case *chanV:
		return x == y.(*chanV)
	case unsafePtr:
		return x.p == y.(unsafePtr).p
	case structure:
		yy := y.(structure)
		tStruct := t.Underlying().(*types.Struct)
		acc := termTrue
		for i, n := 0, tStruct.NumFields(); i < n; i++ {
			f := tStruct.Field(i)
			if f.Name() == "_" {
				continue
			}
			r := equals(f.Type(), x[i], yy[i])
			if b, ok := r.(bool); ok {
				if !b {
					return false
				}
				continue
			}
			acc = tAnd(acc, r.(*Term))
		}
		return boolValue(acc)
	case array:
		yy := y.(array)
		tElt := t.Underlying().(*types.Array).Elem()
		acc := termTrue
		for i, xi := range x {
			r := equals(tElt, xi, yy[i])
			if b, ok := r.(bool); ok {
				if !b {
					return false
				}
				continue
			}
			acc = tAnd(acc, r.(*Term))
		}
		return boolValue(acc)
	case iface:
		yy := y.(iface)
		if !sameType(x.t, yy.t) {
			return false
		}
		if x.t == nil {
			return true
		}
		return equals(x.t, x.v, yy.v)
	case rtype:
		return types.Identical(x.t, y.(rtype).t)
	case poison:
		panic(engineError("comparison of poison value: " + x.why))
	}

	// Since map, func and slice don't support comparison, this
	// case is only reachable if one of x or y is literally nil
	// (handled in eqnil) or via interface{} values.
	panic(targetPanic{v: iface{t: types.Typ[types.String], v: fmt.Sprintf("runtime error: comparing uncomparable type %s", t)}})
}

// symEq builds equality of two scalar terms, reconciling Int/BV sorts.
func symEq(a, b *Term) *Term {
	a, b = reconcile(a, b, true)
	return tEq(a, b)
}

// reconcile makes two integer terms share a sort (Int vs BV).
func reconcile(a, b *Term, signed bool) (*Term, *Term) {
	if a.S == b.S {
		return a, b
	}
	if a.S.K == SInt && b.S.K == SBV {
		if b.IsConst() {
			return a, bvToInt(b, signed)
		}
		return intToBV(a, b.S.W), b
	}
	if a.S.K == SBV && b.S.K == SInt {
		if a.IsConst() {
			return bvToInt(a, signed), b
		}
		return a, intToBV(b, a.S.W)
	}
	if a.S.K == SBV && b.S.K == SBV {
		// width mismatch (should not happen for well-typed programs)
		w := a.S.W
		if b.S.W > w {
			w = b.S.W
		}
		return bvResize(a, w, signed), bvResize(b, w, signed)
	}
	panic(engineError(fmt.Sprintf("cannot reconcile sorts %v and %v", a.S, b.S)))
}

// load returns the value of type T in *addr.
func load(T types.Type, addr *value) value {
	switch T := T.Underlying().(type) {
	case *types.Struct:
		v, ok := (*addr).(structure)
		if !ok {
			return *addr // poison etc.
		}
		a := make(structure, len(v))
		for i := range a {
			a[i] = load(T.Field(i).Type(), &v[i])
		}
		return a
	case *types.Array:
		v, ok := (*addr).(array)
		if !ok {
			return *addr
		}
		a := make(array, len(v))
		for i := range a {
			a[i] = load(T.Elem(), &v[i])
		}
		return a
	default:
		return *addr
	}
}

// copyVal makes an unaliased copy of aggregate values.
func copyVal(v value) value {
	switch v := v.(type) {
	case structure:
		a := make(structure, len(v))
		for i := range a {
			a[i] = copyVal(v[i])
		}
		return a
	case array:
		a := make(array, len(v))
		for i := range a {
			a[i] = copyVal(v[i])
		}
		return a
	}
	return v
}

type undoRec struct {
	addr *value
	old  value
	fn   func()
}

// store stores value v of type T into *addr, journaling the overwritten value.
func (m *machine) store(T types.Type, addr *value, v value) {
	if addr == nil {
		panic(runtimePanic("invalid memory address or nil pointer dereference"))
	}
	switch T := T.Underlying().(type) {
	case *types.Struct:
		lhs, ok1 := (*addr).(structure)
		rhs, ok2 := v.(structure)
		if !ok1 || !ok2 {
			m.jlog(undoRec{addr: addr, old: *addr})
			*addr = copyVal(v)
			return
		}
		for i := range lhs {
			m.store(T.Field(i).Type(), &lhs[i], rhs[i])
		}
	case *types.Array:
		lhs, ok1 := (*addr).(array)
		rhs, ok2 := v.(array)
		if !ok1 || !ok2 {
			m.jlog(undoRec{addr: addr, old: *addr})
			*addr = copyVal(v)
			return
		}
		for i := range lhs {
			m.store(T.Elem(), &lhs[i], rhs[i])
		}
	default:
		m.jlog(undoRec{addr: addr, old: *addr})
		*addr = v
	}
}

// rawStore stores without type-directed recursion (used by intrinsics on scalars/references).
func (m *machine) rawStore(addr *value, v value) {
	if addr == nil {
		panic(runtimePanic("invalid memory address or nil pointer dereference"))
	}
	m.jlog(undoRec{addr: addr, old: *addr})
	*addr = v
}

// jlog records undo information unless a package initialiser is running
// (initialisers build the per-worker template state that paths roll back to).
func (m *machine) jlog(recs ...undoRec) {
	if m.initDepth > 0 {
		return
	}
	m.journal = append(m.journal, recs...)
}

func (m *machine) undoAll() {
	for i := len(m.journal) - 1; i >= 0; i-- {
		r := m.journal[i]
		if r.fn != nil {
			r.fn()
		} else {
			*r.addr = r.old
		}
	}
	m.journal = m.journal[:0]
}

// Prints in the style of built-in println.
func writeValue(buf *bytes.Buffer, v value) {
	switch v := v.(type) {
	case nil, bool, int, int8, int16, int32, int64, uint, uint8, uint16, uint32, uint64, uintptr, float32, float64, complex64, complex128, string:
		fmt.Fprintf(buf, "%v", v)
	case *Term:
		s := v.String()
		if len(s) > 200 {
			s = s[:200] + "..."
		}
		buf.WriteString("«" + s + "»")
	case *mapV:
		buf.WriteString("map[")
		if v != nil {
			for i, e := range v.entries {
				if i > 0 {
					buf.WriteString(" ")
				}
				writeValue(buf, e.key)
				buf.WriteString(":")
				writeValue(buf, e.val)
			}
		}
		buf.WriteString("]")
	case *chanV:
		fmt.Fprintf(buf, "chan(%p)", v)
	case *value:
		if v == nil {
			buf.WriteString("<nil>")
		} else {
			fmt.Fprintf(buf, "%p", v)
		}
	case iface:
		if v.t == nil {
			buf.WriteString("(nil)")
			return
		}
		fmt.Fprintf(buf, "(%s, ", v.t)
		writeValue(buf, v.v)
		buf.WriteString(")")
	case structure:
		buf.WriteString("{")
		for i, e := range v {
			if i > 0 {
				buf.WriteString(" ")
			}
			writeValue(buf, e)
		}
		buf.WriteString("}")
	case array:
		buf.WriteString("[")
		for i, e := range v {
			if i > 0 {
				buf.WriteString(" ")
			}
			writeValue(buf, e)
		}
		buf.WriteString("]")
	case []value:
		buf.WriteString("[")
		for i, e := range v {
			if i > 0 {
				buf.WriteString(" ")
			}
			if i > 16 {
				buf.WriteString("...")
				break
			}
			writeValue(buf, e)
		}
		buf.WriteString("]")
	case *ssa.Function:
		if v == nil {
			buf.WriteString("func(nil)")
		} else {
			buf.WriteString(v.String())
		}
	case *ssa.Builtin, *closure:
		fmt.Fprintf(buf, "%p", v)
	case rtype:
		buf.WriteString(v.t.String())
	case poison:
		buf.WriteString("POISON(" + v.why + ")")
	case tuple:
		buf.WriteString("(")
		for i, e := range v {
			if i > 0 {
				buf.WriteString(", ")
			}
			writeValue(buf, e)
		}
		buf.WriteString(")")
	default:
		fmt.Fprintf(buf, "<%T>", v)
	}
}

func toString(v value) string {
	var b bytes.Buffer
	writeValue(&b, v)
	return b.String()
}

// concreteKey returns a canonical string for a fully concrete map key.
func concreteKey(v value) (string, bool) {
	var b strings.Builder
	if !writeKey(&b, v) {
		return "", false
	}
	return b.String(), true
}

func writeKey(b *strings.Builder, v value) bool {
	switch x := v.(type) {
	case *Term:
		return false
	case poison:
		panic(engineError("poison used as map key: " + x.why))
	case string:
		fmt.Fprintf(b, "s%d:%s", len(x), x)
	case bool, int, int8, int16, int32, int64, uint, uint8, uint16, uint32, uint64, uintptr, float32, float64:
		fmt.Fprintf(b, "%T:%v;", x, x)
	case *value:
		fmt.Fprintf(b, "p%x;", uintptr(unsafe.Pointer(x)))
	case *chanV:
		fmt.Fprintf(b, "c%x;", uintptr(unsafe.Pointer(x)))
	case structure:
		b.WriteByte('{')
		for _, e := range x {
			if !writeKey(b, e) {
				return false
			}
		}
		b.WriteByte('}')
	case array:
		b.WriteByte('[')
		for _, e := range x {
			if !writeKey(b, e) {
				return false
			}
		}
		b.WriteByte(']')
	case iface:
		if x.t == nil {
			b.WriteString("nil;")
			return true
		}
		b.WriteString("i(" + x.t.String() + ")")
		return writeKey(b, x.v)
	case rtype:
		b.WriteString("rt(" + x.t.String() + ")")
	case unsafePtr:
		fmt.Fprintf(b, "u%x;", uintptr(unsafe.Pointer(x.p)))
	default:
		panic(engineError(fmt.Sprintf("unhashable map key %T", v)))
	}
	return true
}

// ------------------------------------------------------------------------
// Iterators

type stringIter struct {
	s string
	i int
}

func (it *stringIter) next() tuple {
	okv := make(tuple, 3)
	if it.i >= len(it.s) {
		okv[0] = false
		return okv
	}
	okv[0] = true
	okv[1] = it.i
	for j, r := range it.s[it.i:] {
		_ = j
		okv[2] = r
		break
	}
	n := 1
	for it.i+n < len(it.s) && it.s[it.i+n]&0xC0 == 0x80 {
		n++
	}
	it.i += n
	return okv
}

type mapIter struct {
	keys, vals []value
	i          int
}

func (it *mapIter) next() tuple {
	if it.i >= len(it.keys) {
		return tuple{false, nil, nil}
	}
	k, v := it.keys[it.i], it.vals[it.i]
	it.i++
	return tuple{true, k, v}
}
