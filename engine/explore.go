// gosym: path exploration by decision-prefix replay, parallel workers, obligations.
package main

import (
	"fmt"
	"os"
	"runtime"
	"sort"
	"strings"
	"sync"
	"time"

	"golang.org/x/tools/go/ssa"
)

type workItem struct {
	prefix []int
}

type inputSym struct {
	Name string
	Sort Sort
	Kind string // Go-level kind for replay: bool,int,int64,uint32,...,string,float64
}

type Violation struct {
	Harness   string         `json:"harness"`
	Label     string         `json:"label"`
	Kind      string         `json:"kind"` // assert | panic
	Detail    string         `json:"detail"`
	Inputs    map[string]any `json:"inputs"`
	Decisions []int          `json:"decisions"`
	Confirmed string         `json:"confirmed,omitempty"`
	Known     string         `json:"known,omitempty"`
	Threads   bool           `json:"threads,omitempty"` // the path ran several goroutines: native replay retries schedules
	ReplayPath string        `json:"replay_path,omitempty"`
}

type pathState struct {
	w           *worker
	prefix      []int
	decisions   []int
	pc          []*Term
	inputs      []inputSym
	inputSorts  map[string]Sort
	choices     map[string]int
	fresh       map[string]int
	permuteMaps bool
	strBudgetV  int
	side        map[any]any // per-path side tables (mutex state, builders, ...)
	stubs       map[string]bool
	named       map[string]*Term
	namedDef    map[string]*Term // fresh name -> the term it abbreviates
	observations []string
}

// noteRand registers an environment-chosen value as an input so that it shows up in counterexamples.
func (p *pathState) noteRand(v *Term) {
	kind := "float64"
	if v.S.K == SBV {
		kind = "int64"
	}
	p.inputSorts[v.Name] = v.S
	p.inputs = append(p.inputs, inputSym{Name: v.Name, Sort: v.S, Kind: kind})
}

func (p *pathState) strBudget() int { return p.strBudgetV + 16 }

func (p *pathState) noteStub(name string) {
	if p == nil {
		return
	}
	p.w.eng.noteStub(name)
}

func (p *pathState) freshName(base string) string {
	n := p.fresh[base]
	p.fresh[base] = n + 1
	return fmt.Sprintf("$%s_%d", base, n)
}

// freshVar creates an internal (non-input) symbol.
func (p *pathState) freshVar(base string, s Sort) *Term {
	return mkVar(p.freshName(base), s)
}

// input creates (or re-finds) a named input symbol.
func (p *pathState) input(name string, s Sort, kind string) *Term {
	if old, ok := p.inputSorts[name]; ok {
		if old != s {
			panic(engineError(fmt.Sprintf("input %q requested with two sorts", name)))
		}
		return mkVar(name, s)
	}
	p.inputSorts[name] = s
	p.inputs = append(p.inputs, inputSym{Name: name, Sort: s, Kind: kind})
	return mkVar(name, s)
}

func (p *pathState) assume(c *Term) {
	if c.IsConst() {
		if !c.B {
			panic(pathAbort{reason: "assume(false)"})
		}
		return
	}
	p.pc = append(p.pc, c)
}

func (p *pathState) solver() *Solver { return p.w.solver }

// decide picks one of alts (mutually exclusive constraints). Alternatives not
// taken are queued as new work items. Returns the chosen index.
func (p *pathState) decide(alts []*Term, exhaustive bool) int {
	idx := len(p.decisions)
	eng := p.w.eng
	if idx < len(p.prefix) {
		ch := p.prefix[idx]
		if ch >= len(alts) {
			panic(engineError("non-deterministic replay: decision arity changed"))
		}
		p.decisions = append(p.decisions, ch)
		if !(alts[ch].IsConst() && alts[ch].B) {
			p.pc = append(p.pc, alts[ch])
		}
		if idx == len(p.prefix)-1 {
			if alts[ch].IsConst() {
				if !alts[ch].B {
					panic(pathAbort{reason: "infeasible"})
				}
			} else {
				switch p.solver().Check(p.pc, nil) {
				case RUnsat:
					eng.count(&eng.stats.Infeasible)
					panic(pathAbort{reason: "infeasible"})
				case RUnknown:
					eng.count(&eng.stats.FeasUnknown)
				}
			}
		}
		return ch
	}
	first := -1
	anyUnknown := false
	for i, a := range alts {
		if a.IsConst() && !a.B {
			continue
		}
		if first >= 0 {
			np := make([]int, len(p.decisions)+1)
			copy(np, p.decisions)
			np[len(p.decisions)] = i
			eng.push(workItem{prefix: np})
			continue
		}
		if a.IsConst() && a.B {
			first = i
			continue
		}
		if exhaustive && i == len(alts)-1 && !anyUnknown {
			first = i // all others infeasible and the path is feasible: this one must be
			continue
		}
		switch p.solver().Check(p.pc, a) {
		case RSat:
			first = i
		case RUnknown:
			eng.count(&eng.stats.FeasUnknown)
			anyUnknown = true
			first = i
		}
	}
	if first < 0 {
		eng.count(&eng.stats.Infeasible)
		panic(pathAbort{reason: "no feasible alternative"})
	}
	p.decisions = append(p.decisions, first)
	if !(alts[first].IsConst() && alts[first].B) {
		p.pc = append(p.pc, alts[first])
	}
	return first
}

func (p *pathState) decideBool(c *Term) bool {
	return p.decide([]*Term{c, tNot(c)}, true) == 0
}

// decideIndex forks over t ∈ {0..n-1}; returns -1 on the out-of-range alternative.
func (p *pathState) decideIndex(t *Term, n int) int {
	alts := make([]*Term, 0, n+1)
	var oor *Term
	if t.S.K == SInt {
		for i := 0; i < n; i++ {
			alts = append(alts, tEq(t, mkInt(int64(i))))
		}
		oor = tOr(intCmp("<", t, mkInt(0)), intCmp(">=", t, mkInt(int64(n))))
	} else {
		w := t.S.W
		for i := 0; i < n; i++ {
			alts = append(alts, tEq(t, mkBV(uint64(i), w)))
		}
		oor = tOr(bvCmp("bvslt", t, mkBV(0, w)), bvCmp("bvsge", t, mkBV(uint64(n), w)))
	}
	alts = append(alts, oor)
	k := p.decide(alts, true)
	if k == n {
		return -1
	}
	return k
}

func factorial(n int) int {
	r := 1
	for i := 2; i <= n; i++ {
		r *= i
	}
	return r
}

func nthPermutation(n, k int) []int {
	elems := make([]int, n)
	for i := range elems {
		elems[i] = i
	}
	out := make([]int, 0, n)
	for i := n; i >= 1; i-- {
		f := factorial(i - 1)
		j := k / f
		k = k % f
		out = append(out, elems[j])
		elems = append(elems[:j], elems[j+1:]...)
	}
	return out
}

func (p *pathState) decidePermutation(n int) []int {
	alts := make([]*Term, factorial(n))
	for i := range alts {
		alts[i] = termTrue
	}
	return nthPermutation(n, p.decide(alts, true))
}

func (p *pathState) choice(name string, n int) int {
	if n <= 0 {
		panic(engineError("vp.Choice with n <= 0"))
	}
	alts := make([]*Term, n)
	for i := range alts {
		alts[i] = termTrue
	}
	k := p.decide(alts, true)
	if old, ok := p.choices[name]; ok && old != k {
		panic(engineError("vp.Choice name reused: " + name))
	}
	p.choices[name] = k
	return k
}

// pastBias constrains every harness-supplied instant to lie before 2020-01-01 (the wall clock of a native replay).
func (p *pathState) pastBias() *Term {
	var cs []*Term
	for _, in := range p.inputs {
		if in.Kind == "time" {
			cs = append(cs, bvCmp("bvsle", mkVar(in.Name, in.Sort), mkBV(uint64(1_577_836_800_000_000_000), 64)))
		}
	}
	if len(cs) == 0 {
		return nil
	}
	return tAnd(cs...)
}

func (p *pathState) inputVars() map[string]Sort {
	m := map[string]Sort{}
	for _, in := range p.inputs {
		m[in.Name] = in.Sort
	}
	return m
}

// assert checks an obligation.
func (p *pathState) assert(c value, label string, fr *frame) {
	eng := p.w.eng
	eng.count(&eng.stats.Obligations)
	switch c := c.(type) {
	case bool:
		if c {
			eng.count(&eng.stats.Discharged)
			eng.count(&eng.stats.DischargedConcrete)
			eng.sampleObligation(p, label, "true (concrete on this path)")
			return
		}
		r, model := p.solver().CheckModel(p.pc, nil, p.inputVars())
		if r == RUnsat {
			panic(pathAbort{reason: "infeasible at assert"})
		}
		if r == RUnknown {
			eng.count(&eng.stats.Inconclusive)
			eng.noteInconclusive(label)
			return
		}
		p.recordViolation(label, "assert", "assertion is false on this path", model)
		panic(violationStop{})
	case *Term:
		r, model := p.solver().CheckModel(p.pc, tNot(c), p.inputVars())
		if r == RUnknown {
			r, model = p.w.secondOpinion(p.pc, tNot(c), p.inputVars())
		}
		switch r {
		case RUnsat:
			eng.count(&eng.stats.Discharged)
			eng.noteDistinct(label, c)
			eng.sampleObligation(p, label, c.String())
		case RUnknown:
			eng.count(&eng.stats.Inconclusive)
			eng.noteInconclusive(label)
		case RSat:
			// native replay runs on the real clock: prefer a model whose symbolic instants lie in the past
			if pb := p.pastBias(); pb != nil {
				if r3, model3 := p.solver().CheckModel(append(append([]*Term{}, p.pc...), pb), tNot(c), p.inputVars()); r3 == RSat {
					model = model3
				}
			}
			p.recordViolation(label, "assert", "assertion can be false", model)
			// look for a violation outside every known-finding predicate
			for _, extra := range eng.knownExclusions(p, label) {
				r2, model2 := p.solver().CheckModel(append(append([]*Term{}, p.pc...), extra), tNot(c), p.inputVars())
				if r2 == RSat {
					p.recordViolation(label, "assert", "assertion can be false (outside known findings)", model2)
				}
			}
		}
		p.assume(c)
	case poison:
		panic(engineError("assert on poison: " + c.why))
	default:
		panic(engineError(fmt.Sprintf("assert on %T", c)))
	}
}

func (p *pathState) recordViolation(label, kind, detail string, model map[string]any) {
	in := map[string]any{}
	for _, s := range p.inputs {
		v, ok := model[s.Name]
		if !ok {
			continue
		}
		in[s.Name] = encodeInput(s, v)
	}
	for n, k := range p.choices {
		in[n] = map[string]any{"kind": "choice", "v": k}
	}
	v := Violation{
		Harness: p.w.eng.curHarness.Func, Label: label, Kind: kind, Detail: detail,
		Inputs: in, Decisions: append([]int{}, p.decisions...),
		Threads: p.w.m.ranThreads || p.w.m.sch != nil && len(p.w.m.sch.gs) > 1,
	}
	p.w.eng.addViolation(v)
}

func encodeInput(s inputSym, v any) map[string]any {
	out := map[string]any{"kind": s.Kind}
	switch x := v.(type) {
	case bool:
		out["v"] = x
	case uint64:
		// store as decimal string to survive JSON float precision
		switch s.Kind {
		case "int", "int64":
			out["v"] = fmt.Sprint(int64(x))
		case "int32":
			out["v"] = fmt.Sprint(int32(x))
		case "int16":
			out["v"] = fmt.Sprint(int16(x))
		case "int8":
			out["v"] = fmt.Sprint(int8(x))
		default:
			out["v"] = fmt.Sprint(x)
		}
	case int64:
		out["v"] = fmt.Sprint(x)
	case string:
		out["v"] = x
	case float64:
		out["v"] = fmt.Sprintf("%x", mathFloat64bits(x))
		out["f"] = fmt.Sprint(x)
	}
	return out
}

// ---------------------------------------------------------------- engine

type Stats struct {
	Paths              int64 `json:"paths"`
	PathsCompleted     int64 `json:"paths_completed"`
	Infeasible         int64 `json:"infeasible_prefixes"`
	FeasUnknown        int64 `json:"feasibility_unknown"`
	Obligations        int64 `json:"obligations"`
	Discharged         int64 `json:"discharged"`
	DischargedConcrete int64 `json:"discharged_concrete"`
	Inconclusive       int64 `json:"inconclusive"`
	SecondOpinions     int64 `json:"second_solver_queries"`
	FuelAborts         int64 `json:"fuel_aborts"`
	BoundAborts        int64 `json:"bound_aborts"`
	AssumeAborts       int64 `json:"assume_aborts"`
	Panics             int64 `json:"target_panics"`
	EngineErrors       int64 `json:"engine_errors"`
	SolverQueries      int64 `json:"solver_queries"`
	SolverTimeMs       int64 `json:"solver_time_ms"`
	Instructions       int64 `json:"instructions"`
}

type engine struct {
	prog       *ssa.Program
	cfg        *HarnessConfig
	curHarness *HarnessSpec
	mu         sync.Mutex
	cond       *sync.Cond
	queue      []workItem
	idle       int
	nworkers   int
	done       bool
	stats      Stats
	violations []Violation
	violCount  map[string]int
	reached    map[string]int
	stubsUsed  map[string]bool
	funcs      map[*ssa.Function]bool
	errors     []string
	samples    []map[string]any
	inconcl    map[string]int
	initWarn   map[string]bool
	maxPaths   int64
	deadline   time.Time
	timedOut   bool
	known      []KnownFinding
	tier       string
	nerr       int
	distinctObl map[string]bool
}

func (e *engine) count(p *int64) {
	e.mu.Lock()
	*p++
	e.mu.Unlock()
}

func newCond(mu *sync.Mutex) *sync.Cond { return sync.NewCond(mu) }

func (e *engine) noteDistinct(label string, c *Term) {
	e.mu.Lock()
	if e.distinctObl == nil {
		e.distinctObl = map[string]bool{}
	}
	e.distinctObl[e.curHarness.Func+"/"+label+"/"+termHash(c.String())] = true
	e.mu.Unlock()
}

func (e *engine) noteStub(n string) {
	e.mu.Lock()
	e.stubsUsed[n] = true
	e.mu.Unlock()
}

func (e *engine) noteInconclusive(label string) {
	e.mu.Lock()
	e.inconcl[label]++
	e.mu.Unlock()
}

func (e *engine) sampleObligation(p *pathState, label, text string) {
	e.mu.Lock()
	defer e.mu.Unlock()
	n := 0
	for _, s := range e.samples {
		if s["harness"] == e.curHarness.Func && s["label"] == label {
			n++
		}
	}
	if n >= 1 || len(e.samples) > 40 {
		return
	}
	if len(text) > 400 {
		text = text[:400] + "…"
	}
	var pcs []string
	for i, c := range p.pc {
		if i >= 6 {
			pcs = append(pcs, "…")
			break
		}
		s := c.String()
		if len(s) > 200 {
			s = s[:200] + "…"
		}
		pcs = append(pcs, s)
	}
	e.samples = append(e.samples, map[string]any{
		"harness": e.curHarness.Func, "label": label, "obligation": text, "path_condition": pcs, "verdict": "unsat(negation)",
	})
}

func (e *engine) addViolation(v Violation) {
	e.mu.Lock()
	defer e.mu.Unlock()
	key := v.Harness + "/" + v.Label
	if e.violCount[key] >= 4 {
		return
	}
	e.violCount[key]++
	e.violations = append(e.violations, v)
}

func (e *engine) push(it workItem) {
	e.mu.Lock()
	e.queue = append(e.queue, it)
	e.mu.Unlock()
	e.cond.Signal()
}

func (e *engine) pop() (workItem, bool) {
	e.mu.Lock()
	defer e.mu.Unlock()
	for {
		if e.done {
			return workItem{}, false
		}
		if e.maxPaths > 0 && e.stats.Paths >= e.maxPaths || time.Now().After(e.deadline) {
			if len(e.queue) > 0 {
				e.timedOut = true
			}
			e.done = true
			e.cond.Broadcast()
			return workItem{}, false
		}
		if n := len(e.queue); n > 0 {
			it := e.queue[n-1]
			e.queue = e.queue[:n-1]
			e.stats.Paths++
			return it, true
		}
		e.idle++
		if e.idle == e.nworkers {
			e.done = true
			e.cond.Broadcast()
			return workItem{}, false
		}
		e.cond.Wait()
		e.idle--
	}
}

type worker struct {
	id     int
	eng    *engine
	m      *machine
	solver *Solver
	alt    *Solver // the other solver, started lazily for obligations the primary one leaves undecided
}

// secondOpinion re-discharges an obligation the primary solver answered "unknown" with the other solver (cvc5 <-> z3 5.1)
// and three times the time limit. Only obligations go through it (not feasibility checks).
func (w *worker) secondOpinion(pc []*Term, extra *Term, vars map[string]Sort) (Result, map[string]any) {
	if w.alt == nil {
		kind := SolverZ3New
		if w.solver.kind != SolverCVC5 {
			kind = SolverCVC5
		}
		w.alt = NewSolver(kind, w.solver.timeoutMs*3, nil)
	}
	w.eng.count(&w.eng.stats.SecondOpinions)
	return w.alt.CheckModel(pc, extra, vars)
}

func newMachine(prog *ssa.Program, cfg *HarnessConfig) *machine {
	m := &machine{
		prog:      prog,
		cfg:       cfg,
		globals:   map[*ssa.Global]*value{},
		initDone:  map[*ssa.Package]bool{},
		funcsSeen: map[*ssa.Function]bool{},
	}
	if rt := prog.ImportedPackage("runtime"); rt != nil {
		if t := rt.Type("errorString"); t != nil {
			m.runtimeErrorString = t.Object().Type()
		}
	}
	return m
}

// runHarness explores all paths of one harness function.
func (e *engine) runHarness(h *HarnessSpec, fn *ssa.Function, workers []*worker) {
	e.curHarness = h
	e.queue = []workItem{{prefix: nil}}
	e.done = false
	e.idle = 0
	e.timedOut = false
	e.nworkers = len(workers)
	e.deadline = time.Now().Add(time.Duration(h.timeBudget()) * time.Second)
	e.maxPaths = h.MaxPaths
	before := e.stats
	var wg sync.WaitGroup
	for _, w := range workers {
		wg.Add(1)
		go func(w *worker) {
			defer wg.Done()
			for {
				it, ok := e.pop()
				if !ok {
					return
				}
				w.runPath(h, fn, it)
			}
		}(w)
	}
	wg.Wait()
	_ = before
}

func (w *worker) runPath(h *HarnessSpec, fn *ssa.Function, it workItem) {
	e := w.eng
	m := w.m
	p := &pathState{
		w: w, prefix: it.prefix,
		inputSorts: map[string]Sort{}, choices: map[string]int{}, fresh: map[string]int{},
		side: map[any]any{}, stubs: map[string]bool{}, named: map[string]*Term{}, namedDef: map[string]*Term{},
	}
	m.path = p
	m.fuel = h.fuel()
	m.depth = 0
	startFuel := m.fuel
	defer func() {
		m.undoAll()
		m.path = nil
		e.mu.Lock()
		e.stats.Instructions += startFuel - m.fuel
		e.mu.Unlock()
	}()
	defer func() {
		r := recover()
		switch r := r.(type) {
		case nil:
			e.count(&e.stats.PathsCompleted)
		case pathAbort:
			switch {
			case r.reason == "fuel":
				e.count(&e.stats.FuelAborts)
				e.addError(fmt.Sprintf("%s: fuel exhausted (unwinding failure) after decisions %v", h.Func, p.decisions))
			case strings.HasPrefix(r.reason, "bound"):
				e.count(&e.stats.BoundAborts)
			case strings.HasPrefix(r.reason, "assume"):
				e.count(&e.stats.AssumeAborts)
			}
		case violationStop:
			e.count(&e.stats.PathsCompleted)
		case targetPanic:
			e.count(&e.stats.Panics)
			e.count(&e.stats.PathsCompleted)
			msg := toString(r.v)
			if s, ok := panicMessage(m, r.v); ok {
				msg = s
			}
			// an uncaught panic of the code under test violates the implicit no-crash obligation
			res, model := p.solver().CheckModel(p.pc, nil, p.inputVars())
			if res == RUnsat {
				return
			}
			p.recordViolation("no-panic", "panic", msg+" @ "+r.pos, model)
		case engineErr:
			e.count(&e.stats.EngineErrors)
			e.addError(fmt.Sprintf("%s: engine error: %s (decisions %v)", h.Func, r.msg, p.decisions))
		case runtime.Error:
			buf := make([]byte, 1<<14)
			n := runtime.Stack(buf, false)
			e.count(&e.stats.EngineErrors)
			e.addError(fmt.Sprintf("%s: engine crash: %v\n%s", h.Func, r, buf[:n]))
		default:
			e.count(&e.stats.EngineErrors)
			e.addError(fmt.Sprintf("%s: unexpected panic %T: %v", h.Func, r, r))
		}
	}()
	g := newMainGoroutine(m)
	m.curG = g
	fr0 := &frame{i: m, g: g}
	_ = fr0
	runMain(m, g, fn)
}

func panicMessage(m *machine, v value) (string, bool) {
	if it, ok := v.(iface); ok {
		if s, ok := it.v.(string); ok {
			return s, true
		}
		if it.t != nil {
			return fmt.Sprintf("(%s) %s", it.t, toString(it.v)), true
		}
	}
	return "", false
}

func (e *engine) addError(s string) {
	e.mu.Lock()
	defer e.mu.Unlock()
	if len(e.errors) < 30 {
		e.errors = append(e.errors, s)
		fmt.Fprintln(os.Stderr, "ERROR:", s)
	}
	e.nerr++
	if e.nerr >= 8 && !e.done {
		e.done = true // no verdict is possible any more: stop exploring
		e.cond.Broadcast()
	}
}

func (e *engine) reach(label string) {
	e.mu.Lock()
	e.reached[e.curHarness.Func+"/"+label]++
	e.mu.Unlock()
}

func sortedKeys[V any](m map[string]V) []string {
	var ks []string
	for k := range m {
		ks = append(ks, k)
	}
	sort.Strings(ks)
	return ks
}
