// gosym: native (host) execution of pure library functions on concrete arguments.
package main

import (
	"bytes"
	"fmt"
	"go/types"
	"math"
	"net"
	"net/netip"
	"path"
	"reflect"
	"regexp"
	"sort"
	"strconv"
	"strings"
	"unicode"
	"unicode/utf8"

	"golang.org/x/tools/go/ssa"
)

func mathFloat64bits(f float64) uint64 { return math.Float64bits(f) }

// natives maps Function.String() to a host function with the same signature
// (over basic types, strings, []string, []byte, error).
var natives = map[string]any{
	"strings.HasPrefix":      strings.HasPrefix,
	"strings.HasSuffix":      strings.HasSuffix,
	"strings.Contains":       strings.Contains,
	"strings.ContainsRune":   strings.ContainsRune,
	"strings.ContainsAny":    strings.ContainsAny,
	"strings.Index":          strings.Index,
	"strings.IndexByte":      strings.IndexByte,
	"strings.IndexRune":      strings.IndexRune,
	"strings.IndexAny":       strings.IndexAny,
	"strings.LastIndex":      strings.LastIndex,
	"strings.LastIndexByte":  strings.LastIndexByte,
	"strings.Split":          strings.Split,
	"strings.SplitN":         strings.SplitN,
	"strings.SplitAfter":     strings.SplitAfter,
	"strings.Fields":         strings.Fields,
	"strings.Join":           strings.Join,
	"strings.TrimSpace":      strings.TrimSpace,
	"strings.Trim":           strings.Trim,
	"strings.TrimLeft":       strings.TrimLeft,
	"strings.TrimRight":      strings.TrimRight,
	"strings.TrimPrefix":     strings.TrimPrefix,
	"strings.TrimSuffix":     strings.TrimSuffix,
	"strings.ToLower":        strings.ToLower,
	"strings.ToUpper":        strings.ToUpper,
	"strings.EqualFold":      strings.EqualFold,
	"strings.Replace":        strings.Replace,
	"strings.ReplaceAll":     strings.ReplaceAll,
	"strings.Repeat":         strings.Repeat,
	"strings.Count":          strings.Count,
	"strings.Compare":        strings.Compare,
	"strings.Title":          strings.Title,
	"strings.Cut":            strings.Cut,
	"strings.CutPrefix":      strings.CutPrefix,
	"strings.CutSuffix":      strings.CutSuffix,
	"strconv.Itoa":           strconv.Itoa,
	"strconv.Atoi":           strconv.Atoi,
	"strconv.ParseInt":       strconv.ParseInt,
	"strconv.ParseUint":      strconv.ParseUint,
	"strconv.ParseBool":      strconv.ParseBool,
	"strconv.ParseFloat":     strconv.ParseFloat,
	"strconv.FormatInt":      strconv.FormatInt,
	"strconv.FormatUint":     strconv.FormatUint,
	"strconv.FormatBool":     strconv.FormatBool,
	"strconv.Quote":          strconv.Quote,
	"strconv.FormatFloat":    strconv.FormatFloat,
	"unicode.IsSpace":        unicode.IsSpace,
	"unicode.IsDigit":        unicode.IsDigit,
	"unicode.IsLetter":       unicode.IsLetter,
	"unicode.IsUpper":        unicode.IsUpper,
	"unicode.IsLower":        unicode.IsLower,
	"unicode.ToLower":        unicode.ToLower,
	"unicode.ToUpper":        unicode.ToUpper,
	"unicode/utf8.RuneCountInString": utf8.RuneCountInString,
	"unicode/utf8.ValidString":       utf8.ValidString,
	"unicode/utf8.RuneLen":           utf8.RuneLen,
	"unicode/utf8.DecodeRuneInString": utf8.DecodeRuneInString,
	"unicode/utf8.DecodeLastRuneInString": utf8.DecodeLastRuneInString,
	"math.Floor":             math.Floor,
	"math.Ceil":              math.Ceil,
	"math.Abs":               math.Abs,
	"math.Sqrt":              math.Sqrt,
	"math.Pow":               math.Pow,
	"math.Log":               math.Log,
	"math.Exp":               math.Exp,
	"math.Inf":               math.Inf,
	"math.IsNaN":             math.IsNaN,
	"math.IsInf":             math.IsInf,
	"math.NaN":               math.NaN,
	"math.Float64bits":       math.Float64bits,
	"math.Float64frombits":   math.Float64frombits,
	"math.Float32bits":       math.Float32bits,
	"math.Float32frombits":   math.Float32frombits,
	"math.Max":               math.Max,
	"math.Min":               math.Min,
	"math.Round":             math.Round,
	"math.Trunc":             math.Trunc,
	"math.Mod":               math.Mod,
	"path.Join":              path.Join,
	"path.Base":              path.Base,
	"regexp.QuoteMeta":       regexp.QuoteMeta,
	"sort.SearchStrings":     sort.SearchStrings,
	"net/netip.ParseAddr":    nil, // placeholder (struct results unsupported)
	"net.SplitHostPort":      net.SplitHostPort,
	"net.JoinHostPort":       net.JoinHostPort,
	"internal/bytealg.IndexByteString":     strings.IndexByte,
	"internal/bytealg.IndexByte":           bytes.IndexByte,
	"internal/bytealg.LastIndexByteString": strings.LastIndexByte,
	"internal/bytealg.LastIndexByte":       bytes.LastIndexByte,
	"internal/bytealg.IndexString":         strings.Index,
	"internal/bytealg.Index":               bytes.Index,
	"internal/bytealg.Equal":               bytes.Equal,
	"internal/bytealg.Compare":             bytes.Compare,
	"internal/bytealg.CountString":         func(s string, c byte) int { return strings.Count(s, string([]byte{c})) },
	"internal/bytealg.Count":               func(b []byte, c byte) int { return bytes.Count(b, []byte{c}) },
	"internal/bytealg.MakeNoZero":          func(n int) []byte { return make([]byte, n) },
}

var _ = netip.ParseAddr

var errorIface = types.Universe.Lookup("error").Type()

// goValue converts an interpreter value into a reflect.Value of Go type rt.
func goValue(v value, rt reflect.Type) (reflect.Value, bool) {
	switch rt.Kind() {
	case reflect.Bool, reflect.Int, reflect.Int8, reflect.Int16, reflect.Int32, reflect.Int64,
		reflect.Uint, reflect.Uint8, reflect.Uint16, reflect.Uint32, reflect.Uint64, reflect.Uintptr,
		reflect.Float32, reflect.Float64, reflect.String:
		switch v.(type) {
		case bool, int, int8, int16, int32, int64, uint, uint8, uint16, uint32, uint64, uintptr, float32, float64, string:
			rv := reflect.ValueOf(v)
			if rv.Type().ConvertibleTo(rt) && rv.Kind() == rt.Kind() {
				return rv.Convert(rt), true
			}
		}
		return reflect.Value{}, false
	case reflect.Slice:
		xs, ok := v.([]value)
		if !ok {
			return reflect.Value{}, false
		}
		out := reflect.MakeSlice(rt, len(xs), len(xs))
		for i, e := range xs {
			ev, ok := goValue(e, rt.Elem())
			if !ok {
				return reflect.Value{}, false
			}
			out.Index(i).Set(ev)
		}
		if xs == nil {
			return reflect.Zero(rt), true
		}
		return out, true
	}
	return reflect.Value{}, false
}

// interpValue converts a host value back.
func (m *machine) interpValue(rv reflect.Value) (value, bool) {
	switch rv.Kind() {
	case reflect.Bool:
		return rv.Bool(), true
	case reflect.Int:
		return int(rv.Int()), true
	case reflect.Int8:
		return int8(rv.Int()), true
	case reflect.Int16:
		return int16(rv.Int()), true
	case reflect.Int32:
		return int32(rv.Int()), true
	case reflect.Int64:
		return rv.Int(), true
	case reflect.Uint:
		return uint(rv.Uint()), true
	case reflect.Uint8:
		return uint8(rv.Uint()), true
	case reflect.Uint16:
		return uint16(rv.Uint()), true
	case reflect.Uint32:
		return uint32(rv.Uint()), true
	case reflect.Uint64:
		return rv.Uint(), true
	case reflect.Uintptr:
		return uintptr(rv.Uint()), true
	case reflect.Float32:
		return float32(rv.Float()), true
	case reflect.Float64:
		return rv.Float(), true
	case reflect.String:
		return rv.String(), true
	case reflect.Slice:
		if rv.IsNil() {
			return []value(nil), true
		}
		out := make([]value, rv.Len())
		for i := range out {
			e, ok := m.interpValue(rv.Index(i))
			if !ok {
				return nil, false
			}
			out[i] = e
		}
		return out, true
	case reflect.Interface:
		if rv.Type().Implements(reflect.TypeOf((*error)(nil)).Elem()) {
			if rv.IsNil() {
				return iface{}, true
			}
			return m.makeError(rv.Interface().(error).Error()), true
		}
	}
	return nil, false
}

// makeError builds an *errors.errorString value in the interpreted program.
func (m *machine) makeError(msg value) value {
	if m.errorStringType == nil {
		pkg := m.prog.ImportedPackage("errors")
		if pkg == nil {
			panic(engineError("package errors not loaded"))
		}
		m.errorStringType = types.NewPointer(pkg.Type("errorString").Object().Type())
	}
	cell := new(value)
	*cell = structure{msg}
	return iface{t: m.errorStringType, v: cell}
}

func allConcrete(args []value) bool {
	for _, a := range args {
		switch a := a.(type) {
		case *Term, poison:
			return false
		case []value:
			if !allConcrete(a) {
				return false
			}
		}
	}
	return true
}

func tryNative(fr *frame, fn *ssa.Function, args []value) (value, bool) {
	h, ok := natives[fn.String()]
	if !ok || h == nil {
		return nil, false
	}
	if !allConcrete(args) {
		return nil, false
	}
	hv := reflect.ValueOf(h)
	ht := hv.Type()
	if ht.NumIn() != len(args) || ht.IsVariadic() {
		return nil, false
	}
	in := make([]reflect.Value, len(args))
	for i, a := range args {
		v, ok := goValue(a, ht.In(i))
		if !ok {
			return nil, false
		}
		in[i] = v
	}
	out := hv.Call(in)
	switch len(out) {
	case 0:
		return nil, true
	case 1:
		v, ok := fr.i.interpValue(out[0])
		if !ok {
			panic(engineError("native result conversion failed for " + fn.String()))
		}
		return v, true
	}
	t := make(tuple, len(out))
	for i, o := range out {
		v, ok := fr.i.interpValue(o)
		if !ok {
			panic(engineError(fmt.Sprintf("native result %d conversion failed for %s", i, fn)))
		}
		t[i] = v
	}
	return t, true
}
