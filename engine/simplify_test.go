package main

// Validation of the syntactic simplifications of the term layer: for random string / length terms the simplified
// result of a constructor must be equivalent (under the declared alphabets) to the raw SMT application, as decided
// by cvc5. Run with: go test -run TestSimplifier -count=1 .

import (
	"math/rand"
	"testing"
)

type simpGen struct {
	r    *rand.Rand
	vars []*Term
}

var simpConsts = []string{"", "a", "b", ".", "a.b", ".svc.", "ab", "b.a", ":", "x"}

func (g *simpGen) atom() *Term {
	if g.r.Intn(3) == 0 {
		return g.vars[g.r.Intn(len(g.vars))]
	}
	return mkStr(simpConsts[g.r.Intn(len(simpConsts))])
}

func (g *simpGen) str() *Term {
	n := 1 + g.r.Intn(4)
	var parts []*Term
	for i := 0; i < n; i++ {
		parts = append(parts, g.atom())
	}
	return strConcat(parts...)
}


func TestSimplifier(t *testing.T) {
	varAlphabet.Store("x", "ab")
	varAlphabet.Store("y", "ab.")
	x, y := mkVar("x", sortStr), mkVar("y", sortStr)
	g := &simpGen{r: rand.New(rand.NewSource(1)), vars: []*Term{x, y}}
	pc := []*Term{
		strInRe(x, printableRe("ab")), strInRe(y, printableRe("ab.")),
		intCmp("<=", mkApp("str.len", sortInt, x), mkInt(3)), intCmp("<=", mkApp("str.len", sortInt, y), mkInt(3)),
	}
	s := NewSolver(SolverCVC5, 20000, nil)
	defer s.Close()
	check := func(kind string, simplified, raw *Term) {
		if simplified.String() == raw.String() {
			return
		}
		var diff *Term
		if simplified.S.K == SBool {
			diff = mkApp("xor", sortBool, simplified, raw)
		} else {
			diff = mkApp("not", sortBool, mkApp("=", sortBool, simplified, raw))
		}
		switch s.Check(pc, diff) {
		case RSat:
			t.Errorf("%s: simplification is not equivalent:\n  simplified: %s\n  raw:        %s", kind, simplified, raw)
		case RUnknown:
			t.Logf("%s: solver inconclusive for %s vs %s", kind, simplified, raw)
		}
	}
	simplifiedCount := 0
	for i := 0; i < 3000; i++ {
		a, b := g.str(), g.str()
		// equality
		se := tEq(a, b)
		re := mkApp("=", sortBool, a, b)
		if se.String() != re.String() {
			simplifiedCount++
		}
		check("tEq", se, re)
		// contains / indexof with a constant needle
		c := mkStr(simpConsts[1+g.r.Intn(len(simpConsts)-1)])
		check("strContains", strContains(a, c), mkApp("str.contains", sortBool, a, c))
		check("strIndexOf", strIndexOf(a, c, mkInt(0)), mkApp("str.indexof", sortInt, a, c, mkInt(0)))
		// substr with cut points built from lengths and indexes of parts
		idx := strIndexOf(a, mkStr("."), mkInt(0))
		off := []*Term{mkInt(0), strLen(x), intAdd(strLen(x), mkInt(1)), idx, intAdd(idx, mkInt(1))}[g.r.Intn(5)]
		end := []*Term{strLen(a), idx, intAdd(off, mkInt(2)), intAdd(strLen(x), strLen(y))}[g.r.Intn(4)]
		n := intSub(end, off)
		// Go slicing semantics are only used with 0 <= off <= end <= len: assume that, as the interpreter does
		valid := tAnd(intCmp(">=", off, mkInt(0)), intCmp("<=", off, end), intCmp("<=", end, strLen(a)))
		ss := strSubstr(a, off, n)
		rs := mkApp("str.substr", sortStr, a, off, n)
		if ss.String() != rs.String() {
			simplifiedCount++
			diff := tAnd(valid, mkApp("not", sortBool, mkApp("=", sortBool, ss, rs)))
			if s.Check(pc, diff) == RSat {
				t.Errorf("strSubstr: not equivalent:\n  simplified: %s\n  raw:        %s", ss, rs)
			}
		}
		// comparisons of lengths
		la, lb := strLen(a), intAdd(strLen(b), mkInt(int64(g.r.Intn(3)-1)))
		for _, op := range []string{"<", "<=", ">", ">="} {
			check("intCmp"+op, intCmp(op, la, lb), mkApp(op, sortBool, rawLen(a), rawLenPlus(b, lb)))
		}
	}
	if simplifiedCount < 100 {
		t.Errorf("the generator exercised only %d simplifications", simplifiedCount)
	}
	t.Logf("%d simplified terms validated against cvc5 (%d queries)", simplifiedCount, s.Queries)
}

// raw length terms: (str.len t) without distributing over concatenation
func rawLen(a *Term) *Term { return mkApp("str.len", sortInt, a) }
func rawLenPlus(b *Term, simplified *Term) *Term {
	// lb = len(b) + k: recover k from the simplified form by evaluating both on the constant part is overkill;
	// compare against the unsimplified sum instead
	l := linDiff(simplified, strLen(b))
	return mkApp("+", sortInt, rawLen(b), mkInt(l.c))
}
