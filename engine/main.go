// gosym: driver. Loads /repo's current source with the harness overlay, builds
// SSA, explores every harness of a property, replays candidate counterexamples
// natively, and writes the evidence file.
package main

import (
	"crypto/sha256"
	"encoding/json"
	"flag"
	"fmt"
	"go/types"
	"os"
	"os/exec"
	"path/filepath"
	"sort"
	"strings"
	"time"

	"golang.org/x/tools/go/packages"
	"golang.org/x/tools/go/ssa"
	"golang.org/x/tools/go/ssa/ssautil"
)

// repoRoot is the tree under check: /repo, unless VERIF_REPO points at another checkout of it (used only to try
// seeded changes in a scratch worktree while /repo stays untouched)
var repoRoot = func() string {
	if r := os.Getenv("VERIF_REPO"); r != "" {
		return r
	}
	return "/repo"
}()

var replayHookOverlay map[string]string
var replayHooks []hookInfo

func overlayFor(cfg *HarnessConfig, verifRoot string, withReplayTest bool, harnessFuncs []string) (map[string]string, string) {
	ov := map[string]string{}
	ov[filepath.Join(repoRoot, "pkg/zzvp/vp.go")] = filepath.Join(verifRoot, "harness/common/vp.go")
	ov[filepath.Join(repoRoot, "pkg/zzvp/vp_regex.go")] = filepath.Join(verifRoot, "harness/common/vp_regex.go")
	for _, f := range cfg.Files {
		ov[filepath.Join(repoRoot, cfg.Dir, "zz_verif_"+filepath.Base(f))] = filepath.Join(cfg.dir, f)
	}
	for virt, real := range cfg.ExtraOverlay {
		ov[filepath.Join(repoRoot, virt)] = filepath.Join(cfg.dir, real)
	}
	testFile := ""
	if withReplayTest {
		pkgName := cfg.pkgName
		var b strings.Builder
		fmt.Fprintf(&b, "package %s\n\nimport (\n\t\"testing\"\n\tvp \"istio.io/istio/pkg/zzvp\"\n", pkgName)
		imports := map[string]string{}
		for _, h := range replayHooks {
			if h.pkgPath != cfg.Package {
				if _, ok := imports[h.pkgPath]; !ok {
					imports[h.pkgPath] = fmt.Sprintf("verifhk%d", len(imports))
					fmt.Fprintf(&b, "\t%s %q\n", imports[h.pkgPath], h.pkgPath)
				}
			}
		}
		b.WriteString(")\n\n")
		b.WriteString("func TestVerifReplay(t *testing.T) {\n")
		for _, h := range replayHooks {
			if h.pkgPath == cfg.Package {
				fmt.Fprintf(&b, "\t%s = %s\n", h.hookVar, h.harnessF)
			} else {
				fmt.Fprintf(&b, "\t%s.%s = %s\n", imports[h.pkgPath], h.hookVar, h.harnessF)
			}
		}
		for virt, real := range replayHookOverlay {
			ov[virt] = real
		}
		b.WriteString("\tvp.RunReplay(t, map[string]func(){\n")
		for _, h := range harnessFuncs {
			fmt.Fprintf(&b, "\t\t%q: %s,\n", h, h)
		}
		b.WriteString("\t})\n}\n")
		tmp, err := os.CreateTemp("", "zz_verif_replay_*_test.go")
		if err != nil {
			panic(err)
		}
		tmp.WriteString(b.String())
		tmp.Close()
		testFile = tmp.Name()
		ov[filepath.Join(repoRoot, cfg.Dir, "zz_verif_replay_test.go")] = testFile
	}
	return ov, testFile
}

func fileSHA(path string) string {
	b, err := os.ReadFile(path)
	if err != nil {
		return ""
	}
	return fmt.Sprintf("%x", sha256.Sum256(b))[:16]
}

// budgetNotes lists harnesses whose exploration stopped at the time budget in this run.
var budgetNotes []string

func main() {
	var (
		cfgPath   = flag.String("config", "", "harness.json")
		tier      = flag.String("tier", "quick", "quick|thorough")
		evidence  = flag.String("evidence", "", "evidence file to write")
		only      = flag.String("only", "", "run only this harness function")
		trace     = flag.Bool("trace", false, "trace instructions")
		workersN  = flag.Int("workers", 16, "parallel workers")
		verifRoot = flag.String("verif", "/verif", "verif root")
		noReplay  = flag.Bool("noreplay", false, "do not replay counterexamples natively")
		replayOne = flag.String("replay", "", "replay a stored counterexample natively and exit")
		smtlog    = flag.String("smtlog", "", "log SMT traffic of worker 0 to this file")
		seed      = flag.Int("seed", 0, "seed (unused: exploration is deterministic)")
		solverOv  = flag.String("solver", "", "override solver: cvc5|z3-new|z3")
	)
	flag.Parse()
	t0 := time.Now()
	if v := os.Getenv("VERIF_TIER"); v != "" && *tier == "" {
		*tier = v
	}
	cfg, err := loadConfig(*cfgPath)
	if err != nil {
		fmt.Fprintln(os.Stderr, "ERROR:", err)
		os.Exit(2)
	}
	if *solverOv != "" {
		cfg.Solver = *solverOv
	}

	ov, _ := overlayFor(cfg, *verifRoot, false, nil)
	overlay := map[string][]byte{}
	for virt, real := range ov {
		b, err := os.ReadFile(real)
		if err != nil {
			fmt.Fprintln(os.Stderr, "ERROR:", err)
			os.Exit(2)
		}
		overlay[virt] = b
	}
	pcfg := &packages.Config{
		Mode:    packages.LoadAllSyntax,
		Dir:     repoRoot,
		Overlay: overlay,
		Env:     append(os.Environ(), "GOFLAGS=-mod=mod", "GOPROXY=off", "GOTOOLCHAIN=local"),
	}
	tl := time.Now()
	pkgs, err := packages.Load(pcfg, cfg.Package)
	if err != nil {
		fmt.Fprintln(os.Stderr, "ERROR: load:", err)
		os.Exit(2)
	}
	nerr := 0
	packages.Visit(pkgs, nil, func(p *packages.Package) {
		for _, e := range p.Errors {
			if nerr < 20 {
				fmt.Fprintln(os.Stderr, "ERROR: harness or tree does not compile:", e)
			}
			nerr++
		}
	})
	if nerr > 0 {
		os.Exit(2)
	}
	cfg.pkgName = pkgs[0].Name
	prog, _ := ssautil.AllPackages(pkgs, ssa.InstantiateGenerics)
	prog.Build()
	loadS := time.Since(tl).Seconds()
	fmt.Fprintf(os.Stderr, "loaded+built SSA in %.1fs\n", loadS)

	var mainPkg *ssa.Package
	for _, p := range prog.AllPackages() {
		if p.Pkg.Path() == cfg.Package {
			mainPkg = p
		}
	}
	if mainPkg == nil {
		fmt.Fprintln(os.Stderr, "ERROR: package not found in SSA program:", cfg.Package)
		os.Exit(2)
	}
	if err := cfg.resolveReplacements(mainPkg); err != nil {
		fmt.Fprintln(os.Stderr, "ERROR:", err)
		os.Exit(2)
	}
	if ho, hk, err := buildHookOverlay(prog, cfg, pkgs[0]); err != nil {
		fmt.Fprintln(os.Stderr, "ERROR: replay hooks:", err)
		os.Exit(2)
	} else {
		replayHookOverlay, replayHooks = ho, hk
	}
	if *replayOne != "" {
		rc := replayStored(cfg, *verifRoot, *replayOne)
		for _, f := range replayHookOverlay {
			os.Remove(f)
		}
		if replayBin != "" {
			os.Remove(replayBin)
		}
		os.Exit(rc)
	}

	eng := &engine{
		prog: prog, cfg: cfg,
		violCount: map[string]int{}, reached: map[string]int{}, stubsUsed: map[string]bool{},
		funcs: map[*ssa.Function]bool{}, inconcl: map[string]int{}, initWarn: map[string]bool{},
		known: loadKnown(filepath.Join(*verifRoot, "KNOWN_FINDINGS.json")),
	}
	eng.cond = newCond(&eng.mu)

	nw := *workersN
	if *trace {
		nw = 1
	}
	workers := make([]*worker, nw)
	for i := range workers {
		var logw *os.File
		if i == 0 && *smtlog != "" {
			logw, _ = os.Create(*smtlog)
		}
		m := newMachine(prog, cfg)
		m.trace = *trace
		var s *Solver
		if logw != nil {
			s = NewSolver(SolverKind(cfg.Solver), cfg.SolverTimeoutMs, logw)
		} else {
			s = NewSolver(SolverKind(cfg.Solver), cfg.SolverTimeoutMs, nil)
		}
		workers[i] = &worker{id: i, eng: eng, m: m, solver: s}
	}
	cleanup := func() {
		for _, w := range workers {
			w.solver.Close()
			if w.alt != nil {
				w.alt.Close()
			}
		}
		if replayBin != "" {
			os.Remove(replayBin)
		}
		if replayBinJitter != "" {
			os.Remove(replayBinJitter)
		}
		for _, f := range jitterFiles {
			os.Remove(f)
		}
		for _, f := range replayHookOverlay {
			os.Remove(f)
		}
	}

	type hres struct {
		Func         string         `json:"func"`
		Kernel       string         `json:"kernel"`
		Twin         bool           `json:"twin,omitempty"`
		Paths        int64          `json:"paths"`
		Obligations  int64          `json:"obligations"`
		Discharged   int64          `json:"discharged"`
		Inconclusive int64          `json:"inconclusive"`
		Violations   int            `json:"violations"`
		WallS        float64        `json:"wall_s"`
		TimedOut     bool           `json:"budget_exhausted,omitempty"`
		Bounds       map[string]any `json:"bounds,omitempty"`
	}
	var results []hres
	var harnessFuncs []string
	for i := range cfg.Harnesses {
		harnessFuncs = append(harnessFuncs, cfg.Harnesses[i].Func)
	}
	exitCode := 0
	var lines []string
	twinFailures := 0
	budgetNotes = nil
	for i := range cfg.Harnesses {
		h := &cfg.Harnesses[i]
		if !h.inTier(*tier) {
			continue
		}
		if *only != "" && h.Func != *only {
			continue
		}
		fn := mainPkg.Func(h.Func)
		if fn == nil {
			eng.addError("harness function not found: " + h.Func)
			continue
		}
		cfg.curSpec = h
		before := eng.stats
		nv := len(eng.violations)
		th := time.Now()
		os.Setenv("VERIF_TIER", *tier)
		eng.tier = *tier
		cfg.tier = *tier
		eng.runHarness(h, fn, workers)
		r := hres{Func: h.Func, Kernel: h.Kernel, Twin: h.Twin,
			Paths: eng.stats.Paths - before.Paths, Obligations: eng.stats.Obligations - before.Obligations,
			Discharged: eng.stats.Discharged - before.Discharged, Inconclusive: eng.stats.Inconclusive - before.Inconclusive,
			Violations: len(eng.violations) - nv, WallS: time.Since(th).Seconds(), TimedOut: eng.timedOut, Bounds: h.Bounds}
		results = append(results, r)
		fmt.Fprintf(os.Stderr, "harness %-28s paths=%d obligations=%d discharged=%d inconclusive=%d violations=%d %.1fs%s\n",
			h.Func, r.Paths, r.Obligations, r.Discharged, r.Inconclusive, r.Violations, r.WallS, map[bool]string{true: " BUDGET-EXHAUSTED", false: ""}[r.TimedOut])
		if eng.timedOut {
			// not a failure: everything explored held; the stated bound is NOT established for this run and the
			// evidence says so (budget_exhausted on the harness entry, paths actually explored)
			fmt.Printf("BOUND-NOT-ESTABLISHED: %s: time budget exhausted after %d paths; every obligation explored held, the remaining paths of the stated bound were not explored\n", h.Func, r.Paths)
			budgetNotes = append(budgetNotes, fmt.Sprintf("%s: time budget exhausted after %d paths (%.0f s); the stated bound is not established by this run", h.Func, r.Paths, r.WallS))
		}
		if r.Inconclusive > 0 && !h.Twin {
			// a solver timeout/unknown is never counted as success: the obligation is outside what this run established
			fmt.Printf("BOUND-NOT-ESTABLISHED: %s: %d of %d obligations got no solver verdict (unknown/timeout); they are not claimed\n", h.Func, r.Inconclusive, r.Obligations)
			budgetNotes = append(budgetNotes, fmt.Sprintf("%s: %d of %d obligations got no solver verdict (unknown/timeout); they are not claimed by this run (labels under coverage.inconclusive_labels)", h.Func, r.Inconclusive, r.Obligations))
		}
		for _, lbl := range h.MustReach {
			if eng.reached[h.Func+"/"+lbl] == 0 {
				eng.addError(fmt.Sprintf("%s: vacuity: label %q never reached", h.Func, lbl))
			}
		}
		if !h.Twin && r.Obligations == 0 {
			eng.addError(fmt.Sprintf("%s: vacuity: no obligation was checked", h.Func))
		}
		if h.Twin && r.Violations == 0 {
			twinFailures++
			eng.addError(fmt.Sprintf("%s: mutant twin produced no counterexample: the harness is blind", h.Func))
		}
	}
	for _, w := range workers {
		eng.stats.SolverQueries += int64(w.solver.Queries)
		eng.stats.SolverTimeMs += w.solver.Time.Milliseconds()
		for f := range w.m.funcsSeen {
			eng.funcs[f] = true
		}
		for _, s := range w.m.initWarnings {
			eng.initWarn[s] = true
		}
	}

	// ---- triage violations: twins are expected; others are replayed natively
	twinOf := map[string]bool{}
	for i := range cfg.Harnesses {
		if cfg.Harnesses[i].Twin {
			twinOf[cfg.Harnesses[i].Func] = true
		}
	}
	replayDir := filepath.Join(*verifRoot, "replays", cfg.Property)
	os.MkdirAll(replayDir, 0o755)
	realViolations := 0
	confirmedLabel := map[string]bool{}
	var unconfirmed []string
	knownPrinted := map[string]bool{}
	var confirmedList []Violation
	for i := range eng.violations {
		v := &eng.violations[i]
		if twinOf[v.Harness] {
			continue
		}
		path := filepath.Join(replayDir, fmt.Sprintf("%s_%s_%d.json", v.Harness, sanitize(v.Label), i))
		v.ReplayPath = path
		b, _ := json.MarshalIndent(v, "", " ")
		os.WriteFile(path, b, 0o644)
		if !*noReplay {
			ok, out := replayNative(cfg, *verifRoot, path, harnessFuncs)
			if ok {
				v.Confirmed = "native replay reproduced: " + out
				confirmedLabel[v.Harness+"/"+v.Label] = true
			} else {
				v.Confirmed = "NOT REPRODUCED: " + out
				unconfirmed = append(unconfirmed, fmt.Sprintf("%s/%s\x00ENGINE-MISMATCH: %s/%s: solver model did not reproduce natively (%s); replay=%s", v.Harness, v.Label, v.Harness, v.Label, out, path))
				continue
			}
		}
		matched := false
		for k := range eng.known {
			if eng.known[k].matches(v, cfg.Property) {
				matched = true
				v.Known = eng.known[k].ID
				if !knownPrinted[eng.known[k].ID] {
					knownPrinted[eng.known[k].ID] = true
					lines = append(lines, fmt.Sprintf("KNOWN-FINDING: property=%s %s: %s", cfg.Property, eng.known[k].ID, eng.known[k].What))
				}
				break
			}
		}
		if !matched {
			realViolations++
			lines = append(lines, fmt.Sprintf("VIOLATION property=%s replay=%s", cfg.Property, path))
			fmt.Fprintf(os.Stderr, "violation: %s/%s (%s): %s\n  inputs: %v\n", v.Harness, v.Label, v.Kind, v.Detail, v.Inputs)
		}
		confirmedList = append(confirmedList, *v)
	}

	// a counterexample that does not reproduce natively is an engine mismatch, unless another model of the
	// same obligation did reproduce (time- and schedule-dependent models are not all replayable)
	for _, u := range unconfirmed {
		parts := strings.SplitN(u, "\x00", 2)
		if !confirmedLabel[parts[0]] {
			eng.addError(parts[1])
		}
	}
	if len(eng.errors) > 0 || os.Getenv("GOSYM_VERBOSE") != "" {
		for s := range eng.initWarn {
			if len(s) > 1200 {
				s = s[:1200]
			}
			fmt.Fprintln(os.Stderr, "init-warning:", s)
		}
	}
	if realViolations > 0 {
		exitCode = 1
	} else if len(eng.errors) > 0 {
		exitCode = 2
	}

	// ---- evidence
	if *evidence != "" {
		writeEvidence(*evidence, cfg, eng, *tier, *seed, results, time.Since(t0).Seconds(), loadS, realViolations, confirmedList, *cfgPath)
	}
	for _, l := range lines {
		fmt.Println(l)
	}
	if exitCode == 2 {
		fmt.Printf("ERROR property=%s: %d engine/harness errors (see stderr); no verdict\n", cfg.Property, len(eng.errors))
	}
	if exitCode == 0 {
		fmt.Printf("OK property=%s tier=%s paths=%d obligations=%d discharged=%d inconclusive=%d wall=%.1fs\n",
			cfg.Property, *tier, eng.stats.Paths, eng.stats.Obligations, eng.stats.Discharged, eng.stats.Inconclusive, time.Since(t0).Seconds())
	}
	cleanup()
	os.Exit(exitCode)
}

func sanitize(s string) string {
	var b strings.Builder
	for _, r := range s {
		if r >= 'a' && r <= 'z' || r >= 'A' && r <= 'Z' || r >= '0' && r <= '9' || r == '-' || r == '_' {
			b.WriteRune(r)
		} else {
			b.WriteByte('_')
		}
	}
	return b.String()
}

func goEnv() []string {
	env := os.Environ()
	env = append(env, "GOFLAGS=-mod=mod", "GOPROXY=off", "GOTOOLCHAIN=local")
	return env
}

// replayBinary builds (once) the package's test binary with the harness overlay.
var replayBin string
var replayBuildErr string
var replayBinJitter string
var jitterFiles []string

func buildReplayBinary(cfg *HarnessConfig, verifRoot string, harnessFuncs []string, jitter bool) {
	if !jitter && (replayBin != "" || replayBuildErr != "") {
		return
	}
	if jitter && (replayBinJitter != "" || replayBuildErr != "") {
		return
	}
	ov, testFile := overlayFor(cfg, verifRoot, true, harnessFuncs)
	defer os.Remove(testFile)
	if jitter {
		jo, err := buildJitterOverlay(cfg, ov)
		if err != nil {
			replayBuildErr = "jitter overlay: " + err.Error()
			return
		}
		for k, v := range jo {
			ov[k] = v
			jitterFiles = append(jitterFiles, v)
		}
	}
	type ovJSON struct {
		Replace map[string]string
	}
	ovf, _ := os.CreateTemp("", "verif_overlay_*.json")
	json.NewEncoder(ovf).Encode(ovJSON{Replace: ov})
	ovf.Close()
	defer os.Remove(ovf.Name())
	binf, _ := os.CreateTemp("", "verif_replay_*.test")
	binf.Close()
	cmd := exec.Command("go", "test", "-c", "-vet=off", "-overlay", ovf.Name(), "-o", binf.Name(), "./"+cfg.Dir+"/")
	cmd.Dir = repoRoot
	cmd.Env = goEnv()
	out, err := cmd.CombinedOutput()
	if err != nil {
		s := string(out)
		if len(s) > 2000 {
			s = s[len(s)-2000:]
		}
		replayBuildErr = "replay build failed: " + s
		os.Remove(binf.Name())
		return
	}
	if jitter {
		replayBinJitter = binf.Name()
	} else {
		replayBin = binf.Name()
	}
}

// replayNative runs the harness natively on the stored inputs inside /repo's real package.
func replayNative(cfg *HarnessConfig, verifRoot, replayPath string, harnessFuncs []string) (bool, string) {
	var want0 Violation
	if b0, err := os.ReadFile(replayPath); err == nil {
		json.Unmarshal(b0, &want0)
	}
	buildReplayBinary(cfg, verifRoot, harnessFuncs, want0.Threads)
	if replayBuildErr != "" {
		return false, replayBuildErr
	}
	bin := replayBin
	if want0.Threads {
		bin = replayBinJitter
	}
	cmd := exec.Command(bin, "-test.run", "^TestVerifReplay$", "-test.timeout", "300s")
	cmd.Dir = filepath.Join(repoRoot, cfg.Dir)
	cmd.Env = append(goEnv(), "VERIF_REPLAY="+replayPath)
	out, _ := cmd.CombinedOutput()
	s := string(out)
	var want Violation
	b, _ := os.ReadFile(replayPath)
	json.Unmarshal(b, &want)
	for _, line := range strings.Split(s, "\n") {
		if i := strings.Index(line, "VERIF-REPLAY-RESULT:"); i >= 0 {
			res := strings.TrimSpace(line[i+len("VERIF-REPLAY-RESULT:"):])
			switch {
			case strings.HasPrefix(res, "assert-failed"):
				if want.Kind == "assert" && strings.Contains(res, "label="+want.Label) {
					return true, res
				}
				return false, "different outcome natively: " + res
			case strings.HasPrefix(res, "panic"):
				if want.Kind == "panic" {
					return true, res
				}
				return false, "different outcome natively: " + res
			case strings.HasPrefix(res, "ok"):
				return false, "harness passed natively"
			default:
				return false, res
			}
		}
	}
	if len(s) > 1500 {
		s = s[len(s)-1500:]
	}
	return false, "no replay result in output: " + s
}

func replayStored(cfg *HarnessConfig, verifRoot, path string) int {
	var fns []string
	for _, h := range cfg.Harnesses {
		fns = append(fns, h.Func)
	}
	// package name is needed for the generated test: read it from the harness file
	for _, f := range cfg.Files {
		b, _ := os.ReadFile(filepath.Join(cfg.dir, f))
		for _, l := range strings.Split(string(b), "\n") {
			if strings.HasPrefix(l, "package ") {
				cfg.pkgName = strings.TrimSpace(strings.TrimPrefix(l, "package "))
			}
		}
	}
	ok, out := replayNative(cfg, verifRoot, path, fns)
	fmt.Println(out)
	if ok {
		fmt.Printf("VIOLATION property=%s replay=%s\n", cfg.Property, path)
		return 1
	}
	return 0
}

func writeEvidence(path string, cfg *HarnessConfig, eng *engine, tier string, seed int, results any, wall, loadS float64, violations int, confirmed []Violation, cfgPath string) {
	type fnInfo struct {
		Func string `json:"func"`
		File string `json:"file"`
		SHA  string `json:"sha256_16"`
	}
	var fns []fnInfo
	shaCache := map[string]string{}
	for f := range eng.funcs {
		pos := eng.prog.Fset.Position(f.Pos())
		if !strings.HasPrefix(pos.Filename, repoRoot+"/") || strings.Contains(pos.Filename, "zz_verif_") || strings.Contains(pos.Filename, "/zzvp/") {
			continue
		}
		rel := strings.TrimPrefix(pos.Filename, repoRoot+"/")
		if _, ok := shaCache[rel]; !ok {
			shaCache[rel] = fileSHA(pos.Filename)
		}
		fns = append(fns, fnInfo{Func: f.String(), File: rel, SHA: shaCache[rel]})
	}
	sort.Slice(fns, func(i, j int) bool { return fns[i].Func < fns[j].Func })
	if len(fns) > 400 {
		fns = fns[:400]
	}
	samples := eng.samples
	for _, v := range eng.violations {
		samples = append(samples, map[string]any{"harness": v.Harness, "label": v.Label, "verdict": "sat (counterexample)", "inputs": v.Inputs, "confirmed": v.Confirmed, "known": v.Known})
		if len(samples) > 60 {
			break
		}
	}
	if len(samples) == 0 {
		samples = append(samples, map[string]any{"note": "no obligation reached"})
	}
	var initWarn []string
	for s := range eng.initWarn {
		if len(s) > 300 {
			s = s[:300]
		}
		initWarn = append(initWarn, s)
	}
	sort.Strings(initWarn)
	if len(initWarn) > 40 {
		initWarn = initWarn[:40]
	}
	distinct := len(eng.distinctObl)
	cov := map[string]any{
		"evaluations":         eng.stats.SolverQueries + eng.stats.Paths,
		"distinct_nontrivial": distinct,
		"rule": "evaluations = solver queries + execution paths; a case is one proof obligation (assertion instance on one symbolic path, negation sent to the SMT solver); " +
			"distinct_nontrivial counts distinct (harness,label,formula) obligations whose formula is not a constant and that the solver answered unsat",
		"samples":                       samples,
		"obligations":                   eng.stats.Obligations,
		"discharged":                    eng.stats.Discharged,
		"inconclusive":                  eng.stats.Inconclusive,
		"second_solver_queries":         eng.stats.SecondOpinions,
		"states":                        eng.stats.Paths,
		"transitions":                   eng.stats.Instructions,
		"traces_validated_against_impl": len(confirmed),
		"checker_cmd":                   fmt.Sprintf("/verif/check %s --tier %s", cfg.Property, tier),
		"trusted_base": []string{"go/packages + go/ssa v0.50.0 (SSA construction)", "gosym interpreter semantics (validated by native replay of every counterexample and by mutant twins)",
			"SMT solver " + cfg.Solver, "harness oracles under /verif/harness/" + cfg.Property},
		"explanation": "Solver-based bounded checking of the real code: the functions listed under functions_encoded are executed symbolically from /repo's current SSA " +
			"(regenerated on this run); inputs are SMT variables; every vp.Assert is discharged as an unsat query of pathcondition ∧ ¬assertion; " +
			"a sat answer is replayed natively with go test -overlay before it is reported. Verdicts hold only within the bounds listed under bounds.",
		"exhaustive":          false,
		"functions_encoded":   fns,
		"functions_encoded_n": len(eng.funcs),
		"harnesses":           results,
		"stats":               eng.stats,
		"stubs_used":          sortedKeys(eng.stubsUsed),
		"replacements":        cfg.Replacements,
		"bounds":              cfg.Bounds,
		"outside_the_claim":   cfg.Outside,
		"solver":              cfg.Solver,
		"solver_timeout_ms":   cfg.SolverTimeoutMs,
		"solver_time_s":       float64(eng.stats.SolverTimeMs) / 1000,
		"load_ssa_s":          loadS,
		"engine_errors":       eng.errors,
		"bound_not_established": budgetNotes,
		"inconclusive_labels": eng.inconcl,
		"init_warnings":       initWarn,
		"reached_labels":      eng.reached,
		"config":              cfgPath,
	}
	ev := map[string]any{
		"property_id": cfg.Property,
		"tier":        tier,
		"seed":        seed,
		"level":       "other",
		"coverage":    cov,
		"assumptions": append([]string{
			"strings are printable ASCII within the stated length bounds",
			"abstract time model: instants within 2001..2096, no Duration saturation",
			"integers derived from string lengths/indices are mathematical ints (cannot overflow within the length bounds)",
			"context switches only at visible operations (channel, mutex, atomic, go, select, timers)",
		}, cfg.Assumptions...),
		"wall_s":     wall,
		"violations": violations,
	}
	os.MkdirAll(filepath.Dir(path), 0o755)
	b, _ := json.MarshalIndent(ev, "", " ")
	os.WriteFile(path, b, 0o644)
}

var _ = types.Typ
