// gosym: SMT term layer.
//
// Terms are immutable trees with constant folding in the constructors. A Term
// is only ever created for a value that is (or may be) symbolic; concrete Go
// values stay native in the interpreter and are lifted on demand.
package main

import (
	"fmt"
	"hash/fnv"
	"math"
	"math/big"
	"math/bits"
	"strconv"
	"strings"
	"sync"
)

type SortKind uint8

const (
	SBool SortKind = iota
	SBV
	SInt
	SStr
	SFP // float64 only
	SRe // regular expression (only inside str.in_re)
)

type Sort struct {
	K SortKind
	W int // bit width for SBV
}

func (s Sort) String() string {
	switch s.K {
	case SBool:
		return "Bool"
	case SBV:
		return fmt.Sprintf("(_ BitVec %d)", s.W)
	case SInt:
		return "Int"
	case SStr:
		return "String"
	case SFP:
		return "(_ FloatingPoint 11 53)"
	case SRe:
		return "RegLan"
	}
	return "?"
}

var (
	sortBool = Sort{K: SBool}
	sortInt  = Sort{K: SInt}
	sortStr  = Sort{K: SStr}
	sortFP   = Sort{K: SFP}
	sortRe   = Sort{K: SRe}
)

func bvSort(w int) Sort { return Sort{K: SBV, W: w} }

type Term struct {
	Op   string // "const", "var", or SMT operator (possibly indexed, e.g. "(_ extract 7 0)")
	S    Sort
	Args []*Term
	// constants
	B bool
	U uint64 // BV payload (masked to width)
	I int64  // Int payload
	Str string
	F float64
	// variables
	Name string

	text string // memoised SMT-LIB text
	size int
}

func (t *Term) IsConst() bool { return t.Op == "const" }

func mask(w int) uint64 {
	if w >= 64 {
		return ^uint64(0)
	}
	return (uint64(1) << uint(w)) - 1
}

// signed interpretation of a w-bit payload
func sext(u uint64, w int) int64 {
	if w >= 64 {
		return int64(u)
	}
	if u&(uint64(1)<<uint(w-1)) != 0 {
		return int64(u | ^mask(w))
	}
	return int64(u)
}

var (
	termTrue  = &Term{Op: "const", S: sortBool, B: true}
	termFalse = &Term{Op: "const", S: sortBool, B: false}
)

func mkBool(b bool) *Term {
	if b {
		return termTrue
	}
	return termFalse
}
func mkBV(u uint64, w int) *Term { return &Term{Op: "const", S: bvSort(w), U: u & mask(w)} }
func mkInt(i int64) *Term        { return &Term{Op: "const", S: sortInt, I: i} }
func mkStr(s string) *Term       { return &Term{Op: "const", S: sortStr, Str: s} }
func mkFP(f float64) *Term       { return &Term{Op: "const", S: sortFP, F: f} }
func mkVar(name string, s Sort) *Term {
	return &Term{Op: "var", S: s, Name: name}
}

func mkApp(op string, s Sort, args ...*Term) *Term {
	n := 1
	for _, a := range args {
		n += a.size
	}
	return &Term{Op: op, S: s, Args: args, size: n}
}

// ---------------------------------------------------------------- printing

func smtString(s string) string {
	var b strings.Builder
	b.WriteByte('"')
	for _, r := range []byte(s) {
		switch {
		case r == '"':
			b.WriteString(`""`)
		case r == '\\':
			b.WriteString(`\u{5c}`)
		case r >= 0x20 && r < 0x7f:
			b.WriteByte(r)
		default:
			fmt.Fprintf(&b, `\u{%x}`, r)
		}
	}
	b.WriteByte('"')
	return b.String()
}

func fpConstText(f float64) string {
	u := math.Float64bits(f)
	sign := u >> 63
	exp := (u >> 52) & 0x7ff
	man := u & ((1 << 52) - 1)
	return fmt.Sprintf("(fp #b%d #b%011b #b%052b)", sign, exp, man)
}

func (t *Term) String() string {
	if t.text != "" {
		return t.text
	}
	var s string
	switch t.Op {
	case "const":
		switch t.S.K {
		case SBool:
			if t.B {
				s = "true"
			} else {
				s = "false"
			}
		case SBV:
			if t.S.W%4 == 0 {
				s = fmt.Sprintf("#x%0*x", t.S.W/4, t.U)
			} else {
				s = fmt.Sprintf("#b%0*b", t.S.W, t.U)
			}
		case SInt:
			if t.I < 0 {
				if t.I == math.MinInt64 {
					s = "(- 9223372036854775808)"
				} else {
					s = fmt.Sprintf("(- %d)", -t.I)
				}
			} else {
				s = strconv.FormatInt(t.I, 10)
			}
		case SStr:
			s = smtString(t.Str)
		case SFP:
			s = fpConstText(t.F)
		}
	case "var":
		s = "|" + t.Name + "|"
	default:
		if len(t.Args) == 0 {
			s = t.Op
		} else {
			var b strings.Builder
			b.WriteByte('(')
			b.WriteString(t.Op)
			for _, a := range t.Args {
				b.WriteByte(' ')
				b.WriteString(a.String())
			}
			b.WriteByte(')')
			s = b.String()
		}
	}
	t.text = s
	return s
}

// collectVars adds every variable of t to out.
func (t *Term) collectVars(out map[string]Sort, seen map[*Term]bool) {
	if seen[t] {
		return
	}
	seen[t] = true
	if t.Op == "var" {
		out[t.Name] = t.S
		return
	}
	for _, a := range t.Args {
		a.collectVars(out, seen)
	}
}

func termHash(s string) string {
	h := fnv.New64a()
	h.Write([]byte(s))
	return fmt.Sprintf("%016x", h.Sum64())
}

// ---------------------------------------------------------------- booleans

func tNot(a *Term) *Term {
	if a.IsConst() {
		return mkBool(!a.B)
	}
	if a.Op == "not" {
		return a.Args[0]
	}
	return mkApp("not", sortBool, a)
}

func tAnd(xs ...*Term) *Term {
	var out []*Term
	for _, x := range xs {
		if x.IsConst() {
			if !x.B {
				return termFalse
			}
			continue
		}
		if x.Op == "and" {
			out = append(out, x.Args...)
			continue
		}
		out = append(out, x)
	}
	switch len(out) {
	case 0:
		return termTrue
	case 1:
		return out[0]
	}
	return mkApp("and", sortBool, out...)
}

func tOr(xs ...*Term) *Term {
	var out []*Term
	for _, x := range xs {
		if x.IsConst() {
			if x.B {
				return termTrue
			}
			continue
		}
		if x.Op == "or" {
			out = append(out, x.Args...)
			continue
		}
		out = append(out, x)
	}
	switch len(out) {
	case 0:
		return termFalse
	case 1:
		return out[0]
	}
	return mkApp("or", sortBool, out...)
}

func tImplies(a, b *Term) *Term { return tOr(tNot(a), b) }

func tIte(c, a, b *Term) *Term {
	if c.IsConst() {
		if c.B {
			return a
		}
		return b
	}
	if a == b {
		return a
	}
	if a.S != b.S {
		panic(fmt.Sprintf("ite sort mismatch %v %v", a.S, b.S))
	}
	if a.S.K == SBool {
		if a.IsConst() && b.IsConst() {
			if a.B && !b.B {
				return c
			}
			if !a.B && b.B {
				return tNot(c)
			}
		}
		if a.IsConst() {
			if a.B {
				return tOr(c, b)
			}
			return tAnd(tNot(c), b)
		}
		if b.IsConst() {
			if b.B {
				return tOr(tNot(c), a)
			}
			return tAnd(c, a)
		}
	}
	return mkApp("ite", a.S, c, a, b)
}

func constEq(a, b *Term) bool {
	switch a.S.K {
	case SBool:
		return a.B == b.B
	case SBV:
		return a.U == b.U
	case SInt:
		return a.I == b.I
	case SStr:
		return a.Str == b.Str
	case SFP:
		return a.F == b.F // IEEE equality; callers use tFPEq for Go ==
	}
	return false
}

func tEq(a, b *Term) *Term {
	if a.S != b.S {
		panic(fmt.Sprintf("eq sort mismatch %v %v: %s / %s", a.S, b.S, a, b))
	}
	if a == b && a.S.K != SFP {
		return termTrue
	}
	if a.IsConst() && b.IsConst() && a.S.K != SFP {
		return mkBool(constEq(a, b))
	}
	if a.S.K == SBool {
		if a.IsConst() {
			if a.B {
				return b
			}
			return tNot(b)
		}
		if b.IsConst() {
			if b.B {
				return a
			}
			return tNot(a)
		}
	}
	if a.S.K == SFP {
		return mkApp("fp.eq", sortBool, a, b)
	}
	if a.S.K == SInt {
		if r := linCmp("=", a, b); r >= 0 {
			return mkBool(r == 1)
		}
	}
	if a.S.K == SStr {
		if strSyntacticallyDistinct(a, b) {
			return termFalse
		}
		// (ite c x y) = z  ==>  (ite c (x = z) (y = z)) when one arm is decided syntactically
		for _, pr := range [][2]*Term{{a, b}, {b, a}} {
			if x, z := pr[0], pr[1]; x.Op == "ite" {
				e1, e2 := tEq(x.Args[1], z), tEq(x.Args[2], z)
				if e1.IsConst() || e2.IsConst() {
					return tIte(x.Args[0], e1, e2)
				}
			}
		}
	}
	return mkApp("=", sortBool, a, b)
}

// ---- syntactic string facts (sound: only constant prefixes/suffixes, minimal lengths and declared alphabets are used)

// varAlphabet records, per input variable, the alphabet its value was constrained to on creation (vp.StringIn).
var varAlphabet sync.Map // name -> string

func strParts(t *Term) []*Term {
	if t.Op == "str.++" {
		return t.Args
	}
	return []*Term{t}
}

// strShape returns the constant prefix, constant suffix and minimal length of a string term.
func strShape(t *Term) (prefix, suffix string, minLen int, isConst bool) {
	if t.IsConst() {
		return t.Str, t.Str, len(t.Str), true
	}
	ps := strParts(t)
	if ps[0].IsConst() {
		prefix = ps[0].Str
	}
	if n := len(ps); ps[n-1].IsConst() {
		suffix = ps[n-1].Str
	}
	for _, x := range ps {
		if x.IsConst() {
			minLen += len(x.Str)
		}
	}
	return prefix, suffix, minLen, false
}

func strSyntacticallyDistinct(a, b *Term) bool {
	pa, sa, la, ca := strShape(a)
	pb, sb, lb, cb := strShape(b)
	if ca && lb > len(a.Str) || cb && la > len(b.Str) {
		return true
	}
	if !strings.HasPrefix(pa, pb) && !strings.HasPrefix(pb, pa) {
		return true
	}
	if !strings.HasSuffix(sa, sb) && !strings.HasSuffix(sb, sa) {
		return true
	}
	// a character that occurs in a constant but cannot occur anywhere in the other side
	if ca && !cb {
		return strHasForeignChar(a.Str, b)
	}
	if cb && !ca {
		return strHasForeignChar(b.Str, a)
	}
	return false
}

// strMayContainChar reports whether string term t can contain byte c (false only when provably not).
func strMayContainChar(t *Term, c byte) bool {
	for _, x := range strParts(t) {
		switch {
		case x.IsConst():
			if strings.IndexByte(x.Str, c) >= 0 {
				return true
			}
		case x.Op == "var":
			al, ok := varAlphabet.Load(x.Name)
			if !ok || strings.IndexByte(al.(string), c) >= 0 {
				return true
			}
		default:
			return true
		}
	}
	return false
}

func strHasForeignChar(c string, t *Term) bool {
	seen := [256]bool{}
	for i := 0; i < len(c); i++ {
		if !seen[c[i]] {
			seen[c[i]] = true
			if !strMayContainChar(t, c[i]) {
				return true
			}
		}
	}
	return false
}

// ---------------------------------------------------------------- bit-vectors

func bvBin(op string, a, b *Term) *Term {
	if a.S != b.S {
		panic(fmt.Sprintf("%s sort mismatch %v %v", op, a.S, b.S))
	}
	w := a.S.W
	if a.IsConst() && b.IsConst() {
		x, y := a.U, b.U
		sx, sy := sext(x, w), sext(y, w)
		switch op {
		case "bvadd":
			return mkBV(x+y, w)
		case "bvsub":
			return mkBV(x-y, w)
		case "bvmul":
			return mkBV(x*y, w)
		case "bvand":
			return mkBV(x&y, w)
		case "bvor":
			return mkBV(x|y, w)
		case "bvxor":
			return mkBV(x^y, w)
		case "bvudiv":
			if y != 0 {
				return mkBV(x/y, w)
			}
		case "bvurem":
			if y != 0 {
				return mkBV(x%y, w)
			}
		case "bvsdiv":
			if y != 0 && !(sy == -1 && sx == math.MinInt64) {
				return mkBV(uint64(sx/sy), w)
			}
		case "bvsrem":
			if y != 0 && !(sy == -1) {
				return mkBV(uint64(sx%sy), w)
			}
			if sy == -1 {
				return mkBV(0, w)
			}
		case "bvshl":
			if y >= uint64(w) {
				return mkBV(0, w)
			}
			return mkBV(x<<y, w)
		case "bvlshr":
			if y >= uint64(w) {
				return mkBV(0, w)
			}
			return mkBV(x>>y, w)
		case "bvashr":
			if y >= uint64(w) {
				if sx < 0 {
					return mkBV(^uint64(0), w)
				}
				return mkBV(0, w)
			}
			return mkBV(uint64(sx>>y), w)
		}
	}
	// identities
	switch op {
	case "bvadd", "bvor", "bvxor":
		if a.IsConst() && a.U == 0 {
			return b
		}
		if b.IsConst() && b.U == 0 {
			return a
		}
	case "bvsub", "bvshl", "bvlshr", "bvashr":
		if b.IsConst() && b.U == 0 {
			return a
		}
	case "bvand":
		if a.IsConst() && a.U == 0 || b.IsConst() && b.U == 0 {
			return mkBV(0, w)
		}
		if a.IsConst() && a.U == mask(w) {
			return b
		}
		if b.IsConst() && b.U == mask(w) {
			return a
		}
	case "bvmul":
		if a.IsConst() && a.U == 1 {
			return b
		}
		if b.IsConst() && b.U == 1 {
			return a
		}
		if a.IsConst() && a.U == 0 || b.IsConst() && b.U == 0 {
			return mkBV(0, w)
		}
	}
	return mkApp(op, a.S, a, b)
}

func bvCmp(op string, a, b *Term) *Term {
	if a.S != b.S {
		panic(fmt.Sprintf("%s sort mismatch %v %v", op, a.S, b.S))
	}
	if a.IsConst() && b.IsConst() {
		w := a.S.W
		x, y := a.U, b.U
		sx, sy := sext(x, w), sext(y, w)
		switch op {
		case "bvult":
			return mkBool(x < y)
		case "bvule":
			return mkBool(x <= y)
		case "bvugt":
			return mkBool(x > y)
		case "bvuge":
			return mkBool(x >= y)
		case "bvslt":
			return mkBool(sx < sy)
		case "bvsle":
			return mkBool(sx <= sy)
		case "bvsgt":
			return mkBool(sx > sy)
		case "bvsge":
			return mkBool(sx >= sy)
		}
	}
	return mkApp(op, sortBool, a, b)
}

func bvNeg(a *Term) *Term {
	if a.IsConst() {
		return mkBV(-a.U, a.S.W)
	}
	return mkApp("bvneg", a.S, a)
}
func bvNot(a *Term) *Term {
	if a.IsConst() {
		return mkBV(^a.U, a.S.W)
	}
	return mkApp("bvnot", a.S, a)
}

// bvResize converts a to width w, sign- or zero-extending, or truncating.
func bvResize(a *Term, w int, signed bool) *Term {
	if a.S.W == w {
		return a
	}
	if a.IsConst() {
		if signed {
			return mkBV(uint64(sext(a.U, a.S.W)), w)
		}
		return mkBV(a.U, w)
	}
	if w < a.S.W {
		return mkApp(fmt.Sprintf("(_ extract %d 0)", w-1), bvSort(w), a)
	}
	if signed {
		return mkApp(fmt.Sprintf("(_ sign_extend %d)", w-a.S.W), bvSort(w), a)
	}
	return mkApp(fmt.Sprintf("(_ zero_extend %d)", w-a.S.W), bvSort(w), a)
}

// ---------------------------------------------------------------- Int

func intAdd(a, b *Term) *Term {
	if a.IsConst() && b.IsConst() {
		s, c := bits.Add64(uint64(a.I), uint64(b.I), 0)
		_ = c
		r := int64(s)
		if (a.I >= 0) == (b.I >= 0) && (r >= 0) != (a.I >= 0) {
			// overflow: keep symbolic
		} else {
			return mkInt(r)
		}
	}
	if a.IsConst() && a.I == 0 {
		return b
	}
	if b.IsConst() && b.I == 0 {
		return a
	}
	return mkApp("+", sortInt, a, b)
}
func intSub(a, b *Term) *Term {
	if a.IsConst() && b.IsConst() {
		r := a.I - b.I
		if !((a.I >= 0) != (b.I >= 0) && (r >= 0) != (a.I >= 0)) {
			return mkInt(r)
		}
	}
	if b.IsConst() && b.I == 0 {
		return a
	}
	return mkApp("-", sortInt, a, b)
}
func intMul(a, b *Term) *Term {
	if a.IsConst() && b.IsConst() {
		x, y := big.NewInt(a.I), big.NewInt(b.I)
		x.Mul(x, y)
		if x.IsInt64() {
			return mkInt(x.Int64())
		}
	}
	if a.IsConst() && a.I == 1 {
		return b
	}
	if b.IsConst() && b.I == 1 {
		return a
	}
	return mkApp("*", sortInt, a, b)
}
func intNeg(a *Term) *Term { return intSub(mkInt(0), a) }

func intCmp(op string, a, b *Term) *Term {
	if a == b {
		return mkBool(op == "<=" || op == ">=")
	}
	if a.IsConst() && b.IsConst() {
		switch op {
		case "<":
			return mkBool(a.I < b.I)
		case "<=":
			return mkBool(a.I <= b.I)
		case ">":
			return mkBool(a.I > b.I)
		case ">=":
			return mkBool(a.I >= b.I)
		}
	}
	if r := linCmp(op, a, b); r >= 0 {
		return mkBool(r == 1)
	}
	return mkApp(op, sortBool, a, b)
}


// ---- linear forms over Int terms (constant + sum of coefficient*atom), used for syntactic simplification only

type linForm struct {
	c     int64
	coef  map[string]int64
	atoms map[string]*Term
}

func (l *linForm) add(t *Term, k int64) {
	switch {
	case t.IsConst():
		l.c += k * t.I
	case t.Op == "+" && len(t.Args) == 2:
		l.add(t.Args[0], k)
		l.add(t.Args[1], k)
	case t.Op == "-" && len(t.Args) == 2:
		l.add(t.Args[0], k)
		l.add(t.Args[1], -k)
	case t.Op == "-" && len(t.Args) == 1:
		l.add(t.Args[0], -k)
	default:
		key := t.String()
		l.coef[key] += k
		l.atoms[key] = t
		if l.coef[key] == 0 {
			delete(l.coef, key)
			delete(l.atoms, key)
		}
	}
}

// linDiff returns the linear form of a-b.
func linDiff(a, b *Term) *linForm {
	l := &linForm{coef: map[string]int64{}, atoms: map[string]*Term{}}
	if a.size+b.size > 400 {
		// too large to be worth normalising: one opaque atom each
		l.coef["#a"], l.atoms["#a"] = 1, a
		l.coef["#b"], l.atoms["#b"] = -1, b
		return l
	}
	l.add(a, 1)
	l.add(b, -1)
	return l
}

// sign information: every atom that is a string length is >= 0
func (l *linForm) bounds() (allNonNeg, allNonPos bool) {
	allNonNeg, allNonPos = true, true
	for k, c := range l.coef {
		if l.atoms[k].Op != "str.len" {
			return false, false
		}
		if c < 0 {
			allNonNeg = false
		}
		if c > 0 {
			allNonPos = false
		}
	}
	return
}

// linCmp decides "a op b" syntactically: 1 true, 0 false, -1 unknown.
func linCmp(op string, a, b *Term) int {
	l := linDiff(a, b)
	nn, np := l.bounds() // diff >= c when nn, diff <= c when np
	t := func(b bool) int {
		if b {
			return 1
		}
		return 0
	}
	if len(l.coef) == 0 {
		switch op {
		case "<":
			return t(l.c < 0)
		case "<=":
			return t(l.c <= 0)
		case ">":
			return t(l.c > 0)
		case ">=":
			return t(l.c >= 0)
		case "=":
			return t(l.c == 0)
		}
	}
	switch op {
	case ">=":
		if nn && l.c >= 0 {
			return 1
		}
		if np && l.c < 0 {
			return 0
		}
	case ">":
		if nn && l.c > 0 {
			return 1
		}
		if np && l.c <= 0 {
			return 0
		}
	case "<":
		if np && l.c < 0 {
			return 1
		}
		if nn && l.c >= 0 {
			return 0
		}
	case "<=":
		if np && l.c <= 0 {
			return 1
		}
		if nn && l.c > 0 {
			return 0
		}
	case "=":
		if nn && l.c > 0 || np && l.c < 0 {
			return 0
		}
	}
	return -1
}

// Go's truncated division on mathematical integers, expressed with SMT's floored div/mod.
func intQuoGo(a, b *Term) *Term {
	if a.IsConst() && b.IsConst() && b.I != 0 && !(a.I == math.MinInt64 && b.I == -1) {
		return mkInt(a.I / b.I)
	}
	// trunc(a/b) = ite(a>=0, a div b, -((-a) div b))   (SMT div rounds toward -inf for positive divisor, "euclidean")
	q := mkApp("div", sortInt, a, b)
	nq := intNeg(mkApp("div", sortInt, intNeg(a), b))
	return tIte(intCmp(">=", a, mkInt(0)), q, nq)
}
func intRemGo(a, b *Term) *Term {
	if a.IsConst() && b.IsConst() && b.I != 0 && !(a.I == math.MinInt64 && b.I == -1) {
		return mkInt(a.I % b.I)
	}
	return intSub(a, intMul(intQuoGo(a, b), b))
}

// intToBV converts an Int-sorted term to a w-bit vector (two's complement wrap).
func intToBV(a *Term, w int) *Term {
	if a.IsConst() {
		return mkBV(uint64(a.I), w)
	}
	if a.Op == "bv2int_s" || a.Op == "bv2nat" {
		// round trip
		if a.Args[0].S.W == w {
			return a.Args[0]
		}
	}
	return mkApp(fmt.Sprintf("(_ int2bv %d)", w), bvSort(w), a)
}

// bvToInt converts a bit-vector to Int under the given signedness.
func bvToInt(a *Term, signed bool) *Term {
	if a.IsConst() {
		if signed {
			return mkInt(sext(a.U, a.S.W))
		}
		if a.U <= math.MaxInt64 {
			return mkInt(int64(a.U))
		}
	}
	if strings.HasPrefix(a.Op, "(_ int2bv") {
		// Trusting the no-overflow assumption for string-derived small ints (see DESIGN §2.2).
		return a.Args[0]
	}
	nat := mkApp("bv2nat", sortInt, a)
	if !signed {
		return nat
	}
	w := a.S.W
	// signed: ite(msb set, nat - 2^w, nat)
	var pow *Term
	if w < 63 {
		pow = mkInt(int64(1) << uint(w))
	} else {
		pow = mkApp("*", sortInt, mkInt(int64(1)<<62), mkInt(int64(1)<<uint(w-62)))
	}
	neg := bvCmp("bvslt", a, mkBV(0, w))
	return tIte(neg, mkApp("-", sortInt, nat, pow), nat)
}

// ---------------------------------------------------------------- strings

func strConcat(xs ...*Term) *Term {
	var out []*Term
	for _, x := range xs {
		if x.Op == "str.++" {
			for _, y := range x.Args {
				out = appendStr(out, y)
			}
			continue
		}
		out = appendStr(out, x)
	}
	switch len(out) {
	case 0:
		return mkStr("")
	case 1:
		return out[0]
	}
	return mkApp("str.++", sortStr, out...)
}

func appendStr(out []*Term, x *Term) []*Term {
	if x.IsConst() {
		if x.Str == "" {
			return out
		}
		if n := len(out); n > 0 && out[n-1].IsConst() {
			out[n-1] = mkStr(out[n-1].Str + x.Str)
			return out
		}
	}
	return append(out, x)
}

func strLen(a *Term) *Term {
	if a.IsConst() {
		return mkInt(int64(len(a.Str)))
	}
	if a.Op == "str.++" {
		r := mkInt(0)
		for _, x := range a.Args {
			r = intAdd(r, strLen(x))
		}
		return r
	}
	return mkApp("str.len", sortInt, a)
}

func strSubstr(s, off, n *Term) *Term {
	// s[k:] of a concatenation with a constant head of length >= k
	if off.IsConst() && s.Op == "str.++" && s.Args[0].IsConst() && int64(len(s.Args[0].Str)) >= off.I && off.I >= 0 {
		if ln := strLen(s); n.String() == intSub(ln, off).String() || n == ln {
			rest := append([]*Term{mkStr(s.Args[0].Str[off.I:])}, s.Args[1:]...)
			return strConcat(rest...)
		}
	}
	if off.IsConst() && off.I == 0 && n == strLen(s) {
		return s
	}
	if s.Op == "str.++" && !(off.IsConst() && n.IsConst()) {
		if r := substrOfConcat(s, off, n); r != nil {
			return r
		}
	}
	if s.IsConst() && off.IsConst() && n.IsConst() {
		o, l := off.I, n.I
		if o < 0 || o >= int64(len(s.Str)) || l <= 0 {
			return mkStr("")
		}
		if o+l > int64(len(s.Str)) {
			l = int64(len(s.Str)) - o
		}
		return mkStr(s.Str[o : o+l])
	}
	return mkApp("str.substr", sortStr, s, off, n)
}

// substrOfConcat resolves s[off:off+n] when both cut points fall, syntactically, on a part boundary of the
// concatenation or at a constant distance inside a constant part. nil when it cannot be resolved.
func substrOfConcat(s, off, n *Term) *Term {
	parts := s.Args
	end := intAdd(off, n)
	cut := func(pos *Term) (idx int, d int64, ok bool) {
		// position = len(parts[:idx]) + d with 0 <= d <= len(parts[idx]) (d > 0 only inside a constant part)
		cum := mkInt(0)
		for i := 0; i <= len(parts); i++ {
			l := linDiff(pos, cum)
			if len(l.coef) == 0 && l.c >= 0 {
				if l.c == 0 {
					return i, 0, true
				}
				if i < len(parts) && parts[i].IsConst() && l.c <= int64(len(parts[i].Str)) {
					return i, l.c, true
				}
			}
			if i < len(parts) {
				cum = intAdd(cum, strLen(parts[i]))
			}
		}
		return 0, 0, false
	}
	i, d, ok1 := cut(off)
	j, e, ok2 := cut(end)
	if !ok1 || !ok2 {
		return nil
	}
	if j < i || j == i && e < d {
		return nil
	}
	var out []*Term
	if i == j {
		if d == e {
			return mkStr("")
		}
		return mkStr(parts[i].Str[d:e])
	}
	if d > 0 {
		out = append(out, mkStr(parts[i].Str[d:]))
	} else {
		out = append(out, parts[i])
	}
	out = append(out, parts[i+1:j]...)
	if e > 0 {
		out = append(out, mkStr(parts[j].Str[:e]))
	}
	return strConcat(out...)
}

func strPrefixOf(p, s *Term) *Term {
	if p.IsConst() && s.IsConst() {
		return mkBool(strings.HasPrefix(s.Str, p.Str))
	}
	if p.IsConst() && p.Str == "" {
		return termTrue
	}
	if p.IsConst() && s.Op == "str.++" && s.Args[0].IsConst() {
		h := s.Args[0].Str
		if strings.HasPrefix(h, p.Str) {
			return termTrue
		}
		if len(h) >= len(p.Str) || !strings.HasPrefix(p.Str, h) {
			return termFalse
		}
	}
	return mkApp("str.prefixof", sortBool, p, s)
}
func strSuffixOf(p, s *Term) *Term {
	if p.IsConst() && s.IsConst() {
		return mkBool(strings.HasSuffix(s.Str, p.Str))
	}
	if p.IsConst() && p.Str == "" {
		return termTrue
	}
	return mkApp("str.suffixof", sortBool, p, s)
}
func strContains(s, sub *Term) *Term {
	if sub.IsConst() && s.IsConst() {
		return mkBool(strings.Contains(s.Str, sub.Str))
	}
	if sub.IsConst() && sub.Str == "" {
		return termTrue
	}
	if sub.IsConst() {
		for i := 0; i < len(sub.Str); i++ {
			if !strMayContainChar(s, sub.Str[i]) {
				return termFalse
			}
		}
	}
	return mkApp("str.contains", sortBool, s, sub)
}
func strIndexOf(s, sub, from *Term) *Term {
	if s.IsConst() && sub.IsConst() && from.IsConst() {
		f := from.I
		if f < 0 || f > int64(len(s.Str)) {
			return mkInt(-1)
		}
		i := strings.Index(s.Str[f:], sub.Str)
		if i < 0 {
			return mkInt(-1)
		}
		return mkInt(int64(i) + f)
	}
	if sub.IsConst() && sub.Str != "" && from.IsConst() && from.I == 0 && s.Op == "str.++" {
		// skip leading parts that cannot contain the first byte of sub; then sub must occur inside the next constant part
		// early enough that no occurrence straddling into later parts can come first
		off := mkInt(0)
		for _, x := range s.Args {
			if !x.IsConst() {
				if strMayContainChar(x, sub.Str[0]) {
					break
				}
				off = intAdd(off, strLen(x))
				continue
			}
			i := strings.Index(x.Str, sub.Str)
			if i >= 0 && i <= len(x.Str)-len(sub.Str) {
				return intAdd(off, mkInt(int64(i)))
			}
			if strings.IndexByte(x.Str, sub.Str[0]) >= 0 {
				break
			}
			off = intAdd(off, mkInt(int64(len(x.Str))))
		}
	}
	return mkApp("str.indexof", sortInt, s, sub, from)
}
func strLt(a, b *Term) *Term {
	if a.IsConst() && b.IsConst() {
		return mkBool(a.Str < b.Str)
	}
	return mkApp("str.<", sortBool, a, b)
}
func strLe(a, b *Term) *Term {
	if a.IsConst() && b.IsConst() {
		return mkBool(a.Str <= b.Str)
	}
	return mkApp("str.<=", sortBool, a, b)
}
func strAt(s, i *Term) *Term {
	if s.IsConst() && i.IsConst() {
		if i.I < 0 || i.I >= int64(len(s.Str)) {
			return mkStr("")
		}
		return mkStr(s.Str[i.I : i.I+1])
	}
	return mkApp("str.at", sortStr, s, i)
}
func strToCode(s *Term) *Term {
	if s.IsConst() {
		if len(s.Str) == 1 {
			return mkInt(int64(s.Str[0]))
		}
		return mkInt(-1)
	}
	return mkApp("str.to_code", sortInt, s)
}
func strFromCode(i *Term) *Term {
	if i.IsConst() {
		if i.I >= 0 && i.I < 256 {
			return mkStr(string([]byte{byte(i.I)}))
		}
	}
	return mkApp("str.from_code", sortStr, i)
}
func strReplaceAll(s, old, new *Term) *Term {
	if s.IsConst() && old.IsConst() && new.IsConst() && old.Str != "" {
		return mkStr(strings.ReplaceAll(s.Str, old.Str, new.Str))
	}
	return mkApp("str.replace_all", sortStr, s, old, new)
}
func strReplaceFirst(s, old, new *Term) *Term {
	if s.IsConst() && old.IsConst() && new.IsConst() {
		return mkStr(strings.Replace(s.Str, old.Str, new.Str, 1))
	}
	return mkApp("str.replace", sortStr, s, old, new)
}
func strFromInt(i *Term) *Term { // non-negative only; negative gives ""
	if i.IsConst() {
		if i.I < 0 {
			return mkStr("")
		}
		return mkStr(strconv.FormatInt(i.I, 10))
	}
	return mkApp("str.from_int", sortStr, i)
}
func strToInt(s *Term) *Term { // -1 if not all digits
	if s.IsConst() {
		if s.Str == "" {
			return mkInt(-1)
		}
		for _, c := range []byte(s.Str) {
			if c < '0' || c > '9' {
				return mkInt(-1)
			}
		}
		if v, err := strconv.ParseInt(s.Str, 10, 64); err == nil {
			return mkInt(v)
		}
	}
	return mkApp("str.to_int", sortInt, s)
}

// regular expressions
func reFromStr(s *Term) *Term   { return mkApp("str.to_re", sortRe, s) }
func reAll() *Term              { return mkApp("re.all", sortRe) }
func reAllChar() *Term          { return mkApp("re.allchar", sortRe) }
func reNone() *Term             { return mkApp("re.none", sortRe) }
func reConcat(xs ...*Term) *Term {
	if len(xs) == 1 {
		return xs[0]
	}
	return mkApp("re.++", sortRe, xs...)
}
func reUnion(xs ...*Term) *Term {
	if len(xs) == 1 {
		return xs[0]
	}
	return mkApp("re.union", sortRe, xs...)
}
func reStar(x *Term) *Term { return mkApp("re.*", sortRe, x) }
func rePlus(x *Term) *Term { return mkApp("re.+", sortRe, x) }
func reOpt(x *Term) *Term  { return mkApp("re.opt", sortRe, x) }
func reRange(a, b byte) *Term {
	return mkApp("re.range", sortRe, mkStr(string([]byte{a})), mkStr(string([]byte{b})))
}
func reComp(x *Term) *Term         { return mkApp("re.comp", sortRe, x) }
func reInter(a, b *Term) *Term     { return mkApp("re.inter", sortRe, a, b) }
func strInRe(s, re *Term) *Term    { return mkApp("str.in_re", sortBool, s, re) }

// ---------------------------------------------------------------- floating point

var rne = &Term{Op: "RNE", S: Sort{K: SRe}} // rounding mode placeholder (printed as symbol)
var rtz = &Term{Op: "RTZ", S: Sort{K: SRe}}

func fpBin(op string, a, b *Term) *Term {
	if a.IsConst() && b.IsConst() {
		switch op {
		case "fp.add":
			return mkFP(a.F + b.F)
		case "fp.sub":
			return mkFP(a.F - b.F)
		case "fp.mul":
			return mkFP(a.F * b.F)
		case "fp.div":
			return mkFP(a.F / b.F)
		}
	}
	return mkApp(op, sortFP, rne, a, b)
}
func fpCmp(op string, a, b *Term) *Term {
	if a.IsConst() && b.IsConst() {
		switch op {
		case "fp.lt":
			return mkBool(a.F < b.F)
		case "fp.leq":
			return mkBool(a.F <= b.F)
		case "fp.gt":
			return mkBool(a.F > b.F)
		case "fp.geq":
			return mkBool(a.F >= b.F)
		case "fp.eq":
			return mkBool(a.F == b.F)
		}
	}
	return mkApp(op, sortBool, a, b)
}
func fpNeg(a *Term) *Term {
	if a.IsConst() {
		return mkFP(-a.F)
	}
	return mkApp("fp.neg", sortFP, a)
}
func fpFromBV(a *Term, signed bool) *Term {
	if a.IsConst() {
		if signed {
			return mkFP(float64(sext(a.U, a.S.W)))
		}
		return mkFP(float64(a.U))
	}
	if signed {
		return mkApp("(_ to_fp 11 53)", sortFP, rne, a)
	}
	return mkApp("(_ to_fp_unsigned 11 53)", sortFP, rne, a)
}
func fpToBV(a *Term, w int, signed bool) *Term {
	if a.IsConst() && !math.IsNaN(a.F) && !math.IsInf(a.F, 0) && math.Abs(a.F) < 9e18 {
		if signed {
			return mkBV(uint64(int64(a.F)), w)
		}
		if a.F >= 0 {
			return mkBV(uint64(a.F), w)
		}
	}
	if signed {
		return mkApp(fmt.Sprintf("(_ fp.to_sbv %d)", w), bvSort(w), rtz, a)
	}
	return mkApp(fmt.Sprintf("(_ fp.to_ubv %d)", w), bvSort(w), rtz, a)
}
func fpIsNaN(a *Term) *Term {
	if a.IsConst() {
		return mkBool(math.IsNaN(a.F))
	}
	return mkApp("fp.isNaN", sortBool, a)
}
func fpIsInf(a *Term) *Term {
	if a.IsConst() {
		return mkBool(math.IsInf(a.F, 0))
	}
	return mkApp("fp.isInfinite", sortBool, a)
}
