// gosym: native replay of harnesses that use replacements.
//
// A replacement (callee -> harness function) only exists inside the engine. For the
// native replay the same substitution is obtained with -overlay: the callee's defining
// file is overlaid by a copy in which the function first consults a package-level hook
// variable, and the generated replay test assigns the harness function to that hook.
// Nothing is written to /repo or to the module cache.
package main

import (
	"bytes"
	"fmt"
	"go/ast"
	"go/parser"
	"go/token"
	"go/types"
	"os"
	"path/filepath"
	"sort"
	"strings"

	"golang.org/x/tools/go/packages"
	"golang.org/x/tools/go/ssa"
	"golang.org/x/tools/go/ssa/ssautil"
)

type hookInfo struct {
	pkgPath  string // package defining the callee
	hookVar  string
	harnessF string
}

type textEdit struct {
	off  int
	del  int
	text string
}

func hookVarName(fn *ssa.Function) string {
	n := fn.Name()
	if recv := fn.Signature.Recv(); recv != nil {
		t := recv.Type().String()
		if i := strings.LastIndexAny(t, "./"); i >= 0 {
			t = t[i+1:]
		}
		t = strings.Trim(t, "*()")
		n = t + "_" + n
	}
	return "VerifHook_" + strings.Map(func(r rune) rune {
		if r == '_' || r >= '0' && r <= '9' || r >= 'a' && r <= 'z' || r >= 'A' && r <= 'Z' {
			return r
		}
		return '_'
	}, n)
}

// buildHookOverlay returns overlay entries (path -> temp file) and hook descriptors.
func buildHookOverlay(prog *ssa.Program, cfg *HarnessConfig, under *packages.Package) (map[string]string, []hookInfo, error) {
	if len(cfg.Replacements) == 0 {
		return nil, nil, nil
	}
	want := map[string]string{}
	for k, v := range cfg.Replacements {
		want[k] = v
	}
	found := map[string]*ssa.Function{}
	for fn := range ssautil.AllFunctions(prog) {
		if _, ok := want[fn.String()]; ok && fn.Syntax() != nil {
			found[fn.String()] = fn
		}
	}
	type fileEdits struct {
		edits []textEdit
		tail  []string
	}
	files := map[string]*fileEdits{}
	var siteDecls []string
	var hooks []hookInfo
	var keys []string
	for k := range want {
		keys = append(keys, k)
	}
	sort.Strings(keys)
	for _, k := range keys {
		fn := found[k]
		if fn == nil {
			return nil, nil, fmt.Errorf("replacement target %s not found with syntax", k)
		}
		decl, ok := fn.Syntax().(*ast.FuncDecl)
		if !ok || decl.Body == nil {
			return nil, nil, fmt.Errorf("replacement target %s has no declaration body", k)
		}
		generic := decl.Type.TypeParams != nil
		if generic && fn.Signature.Recv() != nil {
			return nil, nil, fmt.Errorf("replacement target %s is a method of a generic type", k)
		}
		fset := prog.Fset
		fname := fset.Position(decl.Pos()).Filename
		if strings.Contains(fname, "/pkg/mod/") || generic || !strings.HasPrefix(fname, repoRoot+"/") {
			// the go tool refuses overlays beneath GOMODCACHE, and a hook variable cannot be typed for a generic callee:
			// hook the call sites (of this instantiation) in the package under test instead.
			//   f(args)  ->  verifHookSite_f(f)(args)      with a generic selector that prefers the hook when one is set
			hv := hookVarName(fn)
			site := "verifHookSite" + strings.TrimPrefix(hv, "VerifHook")
			nsites := 0
			for _, file := range under.Syntax {
				ffn := fset.Position(file.Pos()).Filename
				if _, err := os.Stat(ffn); err != nil {
					continue // overlay-only (harness) file
				}
				ast.Inspect(file, func(nd ast.Node) bool {
					call, ok := nd.(*ast.CallExpr)
					if !ok {
						return true
					}
					var id *ast.Ident
					fun := call.Fun
					if ix, ok := fun.(*ast.IndexExpr); ok && generic {
						fun = ix.X
					} else if ix, ok := fun.(*ast.IndexListExpr); ok && generic {
						fun = ix.X
					}
					switch f := fun.(type) {
					case *ast.Ident:
						id = f
					case *ast.SelectorExpr:
						id = f.Sel
					}
					obj := fn.Object()
					if generic && fn.Origin() != nil {
						obj = fn.Origin().Object()
					}
					if id == nil || under.TypesInfo.Uses[id] != obj {
						return true
					}
					if generic {
						if fun == call.Fun {
							return true // inferred instantiation: no expression names the instance
						}
						if rf := cfg.replFns[k]; rf == nil || !types.Identical(under.TypesInfo.TypeOf(call.Fun), rf.Signature) {
							return true // another instantiation than the one the harness function stands in for
						}
					}
					fe := files[ffn]
					if fe == nil {
						fe = &fileEdits{}
						files[ffn] = fe
					}
					recvArg := ""
					if fn.Signature.Recv() != nil {
						sel, ok := call.Fun.(*ast.SelectorExpr)
						if !ok {
							return true
						}
						// method: pass the receiver expression too (evaluated twice; receivers here are plain variables/fields)
						rsrc, err := os.ReadFile(ffn)
						if err != nil {
							return true
						}
						recvArg = ", " + string(rsrc[fset.Position(sel.X.Pos()).Offset:fset.Position(sel.X.End()).Offset])
						if _, isPtr := fn.Signature.Recv().Type().(*types.Pointer); isPtr {
							if _, argPtr := under.TypesInfo.TypeOf(sel.X).Underlying().(*types.Pointer); !argPtr {
								recvArg = ", &" + recvArg[2:]
							}
						}
					}
					fe.edits = append(fe.edits,
						textEdit{off: fset.Position(call.Fun.Pos()).Offset, text: site + "("},
						textEdit{off: fset.Position(call.Fun.End()).Offset, text: recvArg + ")"})
					nsites++
					return true
				})
			}
			if nsites == 0 {
				return nil, nil, fmt.Errorf("replacement target %s lives in the module cache and is not called from %s: no place to hook it natively", k, cfg.Package)
			}
			siteDecls = append(siteDecls, fmt.Sprintf(`
var %[1]s any

func %[2]s[F any](orig F, recv ...any) F {
	if %[1]s == nil {
		return orig
	}
	if h, ok := %[1]s.(F); ok && len(recv) == 0 {
		return h
	}
	hv := reflect.ValueOf(%[1]s)
	ft := reflect.TypeOf(orig)
	return reflect.MakeFunc(ft, func(in []reflect.Value) []reflect.Value {
		all := in
		if len(recv) > 0 {
			all = append([]reflect.Value{reflect.ValueOf(recv[0])}, in...)
		}
		if ft.IsVariadic() {
			return hv.CallSlice(all)
		}
		return hv.Call(all)
	}).Interface().(F)
}
`, hv, site))
			hooks = append(hooks, hookInfo{pkgPath: cfg.Package, hookVar: hv, harnessF: want[k]})
			continue
		}
		src, err := os.ReadFile(fname)
		if err != nil {
			return nil, nil, err
		}
		fe := files[fname]
		if fe == nil {
			fe = &fileEdits{}
			files[fname] = fe
		}
		off := func(p token.Pos) int { return fset.Position(p).Offset }
		text := func(a, b token.Pos) string { return string(src[off(a):off(b)]) }
		// collect parameters (receiver first), naming the unnamed ones
		var callArgs, hookParams []string
		n := 0
		addFields := func(fl *ast.FieldList) {
			if fl == nil {
				return
			}
			for _, f := range fl.List {
				tstr := text(f.Type.Pos(), f.Type.End())
				variadic := strings.HasPrefix(tstr, "...")
				if len(f.Names) == 0 {
					name := fmt.Sprintf("verifP%d", n)
					n++
					fe.edits = append(fe.edits, textEdit{off: off(f.Type.Pos()), text: name + " "})
					hookParams = append(hookParams, tstr)
					if variadic {
						name += "..."
					}
					callArgs = append(callArgs, name)
					continue
				}
				for _, id := range f.Names {
					name := id.Name
					if name == "_" {
						name = fmt.Sprintf("verifP%d", n)
						n++
						fe.edits = append(fe.edits, textEdit{off: off(id.Pos()), del: 1, text: name})
					}
					hookParams = append(hookParams, tstr)
					if variadic {
						name += "..."
					}
					callArgs = append(callArgs, name)
				}
			}
		}
		addFields(decl.Recv)
		addFields(decl.Type.Params)
		results := ""
		if decl.Type.Results != nil {
			results = " " + text(decl.Type.Results.Pos(), decl.Type.Results.End())
		}
		hv := hookVarName(fn)
		call := hv + "(" + strings.Join(callArgs, ", ") + ")"
		var inject string
		if decl.Type.Results != nil && len(decl.Type.Results.List) > 0 {
			inject = fmt.Sprintf("\n\tif %s != nil {\n\t\treturn %s\n\t}\n", hv, call)
		} else {
			inject = fmt.Sprintf("\n\tif %s != nil {\n\t\t%s\n\t\treturn\n\t}\n", hv, call)
		}
		fe.edits = append(fe.edits, textEdit{off: off(decl.Body.Lbrace) + 1, text: inject})
		fe.tail = append(fe.tail, fmt.Sprintf("\nvar %s func(%s)%s\n", hv, strings.Join(hookParams, ", "), results))
		hooks = append(hooks, hookInfo{pkgPath: fn.Pkg.Pkg.Path(), hookVar: hv, harnessF: want[k]})
	}
	out := map[string]string{}
	if len(siteDecls) > 0 {
		tmp, err := os.CreateTemp("", "verif_hooksites_*.go")
		if err != nil {
			return nil, nil, err
		}
		fmt.Fprintf(tmp, "package %s\n\nimport \"reflect\"\n%s", under.Name, strings.Join(siteDecls, ""))
		tmp.Close()
		out[filepath.Join(repoRoot, cfg.Dir, "zz_verif_hooksites.go")] = tmp.Name()
	}
	for fname, fe := range files {
		src, _ := os.ReadFile(fname)
		sort.Slice(fe.edits, func(i, j int) bool { return fe.edits[i].off > fe.edits[j].off })
		s := string(src)
		for _, e := range fe.edits {
			s = s[:e.off] + e.text + s[e.off+e.del:]
		}
		s += strings.Join(fe.tail, "")
		tmp, err := os.CreateTemp("", "verif_hook_*.go")
		if err != nil {
			return nil, nil, err
		}
		tmp.WriteString(s)
		tmp.Close()
		out[fname] = tmp.Name()
	}
	return out, hooks, nil
}

// buildJitterOverlay instruments every mutex acquisition/release statement of the package under
// test with a call to zzvp.Jitter() (random short sleep / yield). It is used only for the native
// confirmation of schedule-dependent counterexamples: the engine found the interleaving, the native
// run searches for it with widened race windows.
func buildJitterOverlay(cfg *HarnessConfig, base map[string]string) (map[string]string, error) {
	dir := repoRoot + "/" + cfg.Dir
	ents, err := os.ReadDir(dir)
	if err != nil {
		return nil, err
	}
	out := map[string]string{}
	for _, e := range ents {
		name := e.Name()
		if e.IsDir() || !strings.HasSuffix(name, ".go") || strings.HasSuffix(name, "_test.go") {
			continue
		}
		path := dir + "/" + name
		srcPath := path
		if r, ok := base[path]; ok {
			srcPath = r // already overlaid (hook file): instrument that version
		}
		src, err := os.ReadFile(srcPath)
		if err != nil {
			return nil, err
		}
		fset := token.NewFileSet()
		f, err := parser.ParseFile(fset, path, src, parser.ParseComments)
		if err != nil {
			continue
		}
		if len(f.Decls) == 0 {
			continue
		}
		// respect build constraints very roughly: skip files with a go:build line that is not satisfied by default
		if bytes.Contains(src[:min(len(src), 400)], []byte("//go:build")) {
			continue
		}
		var edits []textEdit
		ast.Inspect(f, func(n ast.Node) bool {
			es, ok := n.(*ast.ExprStmt)
			if !ok {
				return true
			}
			call, ok := es.X.(*ast.CallExpr)
			if !ok || len(call.Args) != 0 {
				return true
			}
			sel, ok := call.Fun.(*ast.SelectorExpr)
			if !ok {
				return true
			}
			switch sel.Sel.Name {
			case "Lock", "RLock", "Unlock", "RUnlock":
				edits = append(edits, textEdit{off: fset.Position(es.Pos()).Offset, text: "zzvpjitter.Jitter(); "})
			}
			return true
		})
		if len(edits) == 0 {
			continue
		}
		sort.Slice(edits, func(i, j int) bool { return edits[i].off > edits[j].off })
		s := string(src)
		for _, e := range edits {
			s = s[:e.off] + e.text + s[e.off:]
		}
		// add the import right after the package clause
		pkgEnd := fset.Position(f.Name.End()).Offset
		s = s[:pkgEnd] + "\n\nimport zzvpjitter \"istio.io/istio/pkg/zzvp\"\n" + s[pkgEnd:]
		tmp, err := os.CreateTemp("", "verif_jitter_*.go")
		if err != nil {
			return nil, err
		}
		tmp.WriteString(s)
		tmp.Close()
		out[path] = tmp.Name()
	}
	return out, nil
}
