// Derived from golang.org/x/tools/go/ssa/interp (BSD-style licence, The Go Authors).
//
// gosym: a symbolic interpreter for Go SSA. Structure is concrete, scalar
// leaves may be *Term. Symbolic branches are resolved by the path's decision
// procedure (explore.go); forking is by re-execution from the harness entry
// with a decision prefix, so the heap is ordinary mutable Go data, rolled back
// between paths with a write journal.
package main

import (
	"fmt"
	"go/token"
	"go/types"
	"os"
	"runtime"
	"slices"
	"strings"

	"golang.org/x/tools/go/ssa"
)

type continuation int

const (
	kNext continuation = iota
	kReturn
	kJump
)

// targetPanic: the target program panicked (explicitly or by a run-time error).
type targetPanic struct {
	v   value
	pos string
}

func (p targetPanic) String() string { return toString(p.v) }

// engineErr: the engine cannot execute something. Never a verdict.
type engineErr struct{ msg string }

func engineError(msg string) engineErr { return engineErr{msg} }

// pathAbort: stop this path silently (infeasible, assumption false, bound hit).
type pathAbort struct{ reason string }

// machine is the per-worker interpreter state.
type machine struct {
	prog     *ssa.Program
	cfg      *HarnessConfig
	ranThreads bool // the last path ran more than one goroutine
	globals  map[*ssa.Global]*value
	initDone map[*ssa.Package]bool
	initDepth int
	journal  []undoRec
	path     *pathState
	sizes    types.Sizes
	fuel     int64
	depth    int
	curG     *gor // current goroutine (threads.go)
	sch      *sched
	initSide map[any]any

	runtimeErrorString types.Type
	errorStringType    types.Type // *errors.errorString
	initWarnings       []string
	funcsSeen          map[*ssa.Function]bool // functions interpreted (for evidence)
	trace              bool
}

type deferred struct {
	fn    value
	args  []value
	instr *ssa.Defer
	tail  *deferred
}

type frame struct {
	i                *machine
	caller           *frame
	fn               *ssa.Function
	block, prevBlock *ssa.BasicBlock
	env              map[ssa.Value]value // dynamic values of SSA variables
	locals           []value
	defers           *deferred
	result           value
	panicking        bool
	panic            any
	phitemps         []value // temporaries for parallel phi assignment
	lenient          bool    // package initialiser: failing instructions yield poison
	g                *gor
}

func runtimePanic(msg string) targetPanic {
	return targetPanic{v: iface{t: rtErrType, v: "runtime error: " + msg}}
}

// rtErrType stands for runtime.Error values raised by the interpreter.
var rtErrType types.Type = types.NewNamed(types.NewTypeName(token.NoPos, nil, "runtimeError", nil), types.Typ[types.String], nil)

func (fr *frame) get(key ssa.Value) value {
	switch key := key.(type) {
	case nil:
		return nil
	case *ssa.Function, *ssa.Builtin:
		return key
	case *ssa.Const:
		return constValue(key)
	case *ssa.Global:
		return fr.i.globalAddr(key)
	}
	if r, ok := fr.env[key]; ok {
		return r
	}
	panic(engineError(fmt.Sprintf("get: no value for %T: %v in %s", key, key.Name(), fr.fn)))
}

// globalAddr returns the cell of a package-level variable, running the owning
// package's initialiser (leniently, concretely) on first touch.
func (m *machine) globalAddr(g *ssa.Global) *value {
	if r, ok := m.globals[g]; ok {
		return r
	}
	pkg := g.Pkg
	if pkg != nil && !m.initDone[pkg] {
		m.runInit(pkg)
		if r, ok := m.globals[g]; ok {
			return r
		}
	}
	cell := new(value)
	*cell = zero(deref(g.Type()))
	m.globals[g] = cell
	return cell
}

func (m *machine) runInit(pkg *ssa.Package) {
	m.initDone[pkg] = true
	for _, mem := range pkg.Members {
		if g, ok := mem.(*ssa.Global); ok {
			if _, ok := m.globals[g]; !ok {
				cell := new(value)
				*cell = zero(deref(g.Type()))
				m.globals[g] = cell
			}
		}
	}
	init := pkg.Func("init")
	if init == nil || init.Blocks == nil {
		return
	}
	if m.cfg != nil && m.cfg.skipInit(pkg.Pkg.Path()) {
		m.poisonGlobals(pkg, nil, "init skipped by config")
		return
	}
	m.initDepth++
	savedPath := m.path
	savedFuel := m.fuel
	m.fuel = 50_000_000
	defer func() {
		m.initDepth--
		m.path = savedPath
		m.fuel = savedFuel
	}()
	m.path = nil // no decisions during init
	fr := &frame{i: m, fn: init, lenient: true}
	executed := map[*ssa.Global]bool{}
	func() {
		defer func() {
			if r := recover(); r != nil {
				m.initWarnings = append(m.initWarnings, fmt.Sprintf("init of %s aborted: %v", pkg.Pkg.Path(), describePanic(r)))
				m.poisonGlobals(pkg, executed, "init aborted")
			}
		}()
		m.runInitFrame(fr, executed)
	}()
}

func (m *machine) poisonGlobals(pkg *ssa.Package, executed map[*ssa.Global]bool, why string) {
	init := pkg.Func("init")
	if init == nil {
		return
	}
	for _, b := range init.Blocks {
		for _, ins := range b.Instrs {
			if st, ok := ins.(*ssa.Store); ok {
				if g, ok := st.Addr.(*ssa.Global); ok && !executed[g] && g.Name() != "init$guard" {
					*m.globals[g] = poison{why: fmt.Sprintf("%s.%s: %s", pkg.Pkg.Path(), g.Name(), why)}
				}
			}
		}
	}
}

func describePanic(r any) string {
	switch p := r.(type) {
	case targetPanic:
		return "target panic: " + toString(p.v)
	case engineErr:
		return "engine: " + p.msg
	case pathAbort:
		return "path abort: " + p.reason
	case runtime.Error:
		buf := make([]byte, 4096)
		n := runtime.Stack(buf, false)
		return "engine runtime error: " + p.Error() + "\n" + string(buf[:n])
	}
	return fmt.Sprint(r)
}

// runInitFrame interprets a package initialiser; instructions that cannot be
// executed produce poison instead of aborting.
func (m *machine) runInitFrame(fr *frame, executed map[*ssa.Global]bool) {
	fn := fr.fn
	fr.env = make(map[ssa.Value]value)
	fr.block = fn.Blocks[0]
	fr.locals = make([]value, len(fn.Locals))
	for i, l := range fn.Locals {
		fr.locals[i] = zero(deref(l.Type()))
		fr.env[l] = &fr.locals[i]
	}
	for fr.block != nil {
		nonPhis := executePhis(fr)
		for _, instr := range nonPhis {
			// skip calls to other packages' init: those run lazily on first global access
			if c, ok := instr.(*ssa.Call); ok {
				if callee := c.Call.StaticCallee(); callee != nil && callee.Name() == "init" && callee.Pkg != fn.Pkg && callee.Signature.Recv() == nil {
					fr.env[c] = nil
					continue
				}
			}
			var k continuation
			failed := func() (failed bool) {
				defer func() {
					if r := recover(); r != nil {
						switch r.(type) {
						case pathAbort, violationStop, killGoroutine:
							panic(r)
						default:
							failed = true
							why := describePanic(r)
							if len(why) > 300 {
								why = why[:300]
							}
							if v, ok := instr.(ssa.Value); ok {
								fr.env[v] = poison{why: fmt.Sprintf("init of %s: %s", fn.Pkg.Pkg.Path(), why)}
							}
							if c, ok := instr.(*ssa.Call); ok {
								if callee := c.Call.StaticCallee(); callee != nil && strings.HasPrefix(callee.Name(), "init#") {
									m.initWarnings = append(m.initWarnings, fmt.Sprintf("%s.%s failed: %s", fn.Pkg.Pkg.Path(), callee.Name(), why))
								}
							}
						}
					}
				}()
				k = visitInstr(fr, instr)
				return false
			}()
			if st, ok := instr.(*ssa.Store); ok {
				if g, ok := st.Addr.(*ssa.Global); ok {
					executed[g] = true
					if failed {
						*m.globals[g] = poison{why: fmt.Sprintf("%s.%s: store failed", fn.Pkg.Pkg.Path(), g.Name())}
					}
				}
			}
			if failed {
				if _, isIf := instr.(*ssa.If); isIf {
					panic(engineError("branch on poison in package initialiser"))
				}
				continue
			}
			if k == kReturn {
				return
			}
			if k == kJump {
				break
			}
		}
	}
}

// runDefer runs a deferred call d.
// It always returns normally, but may set or clear fr.panic.
func (fr *frame) runDefer(d *deferred) {
	var ok bool
	defer func() {
		if !ok {
			r := recover()
			switch r.(type) {
			case pathAbort, engineErr, runtime.Error, violationStop, killGoroutine:
				panic(r) // never intercepted by the target
			}
			// Deferred call created a new state of panic.
			fr.panicking = true
			fr.panic = r
		}
	}()
	call(fr.i, fr, d.instr.Pos(), d.fn, d.args)
	ok = true
}

func (fr *frame) runDefers() {
	for d := fr.defers; d != nil; d = d.tail {
		fr.runDefer(d)
	}
	fr.defers = nil
	if fr.panicking {
		panic(fr.panic) // new panic, or still panicking
	}
}

func lookupMethod(i *machine, typ types.Type, meth *types.Func) (fn *ssa.Function) {
	defer func() {
		if r := recover(); r != nil {
			panic(engineError(fmt.Sprintf("method lookup %v.%s: %v", typ, meth.Name(), r)))
		}
	}()
	return i.prog.LookupMethod(typ, meth.Pkg(), meth.Name())
}

func (fr *frame) pos(p token.Pos) string {
	if p == token.NoPos {
		return fr.fn.String()
	}
	out := fr.i.prog.Fset.Position(p).String()
	if os.Getenv("GOSYM_STACK") != "" {
		for f := fr; f != nil; f = f.caller {
			if f.fn != nil {
				out += " <- " + f.fn.String()
			}
		}
	}
	return out
}

// decideValue resolves a bool-or-Term condition to a concrete branch.
func (fr *frame) decideValue(c value) bool {
	switch c := c.(type) {
	case bool:
		return c
	case *Term:
		if c.IsConst() {
			return c.B
		}
		if fr.i.path == nil {
			panic(engineError("symbolic branch outside a path (package initialiser?)"))
		}
		return fr.i.path.decideBool(c)
	case poison:
		panic(engineError("branch on poison value: " + c.why + " in " + fr.fn.String()))
	}
	panic(engineError(fmt.Sprintf("branch on %T", c)))
}

// concreteIndex resolves a possibly symbolic integer index into [0,n) by forking;
// out of range raises the Go run-time panic.
func (fr *frame) concreteIndex(idx value, n int, what string) int {
	if t, ok := idx.(*Term); ok {
		if t.IsConst() {
			idx = concretize(t, types.Typ[types.Int])
			if tt, ok := idx.(*Term); ok {
				if tt.S.K == SInt {
					idx = int(tt.I)
				}
			}
		} else {
			if fr.i.path == nil {
				panic(engineError("symbolic index outside a path"))
			}
			k := fr.i.path.decideIndex(t, n)
			if k < 0 {
				panic(runtimePanic(fmt.Sprintf("index out of range [symbolic] with length %d (%s)", n, what)))
			}
			return k
		}
	}
	if p, ok := idx.(poison); ok {
		panic(engineError("index is poison: " + p.why))
	}
	i := asInt64(idx)
	if i < 0 || i >= int64(n) {
		panic(runtimePanic(fmt.Sprintf("index out of range [%d] with length %d", i, n)))
	}
	return int(i)
}

func visitInstr(fr *frame, instr ssa.Instruction) continuation {
	m := fr.i
	switch instr := instr.(type) {
	case *ssa.DebugRef:
		// no-op

	case *ssa.UnOp:
		fr.env[instr] = fr.unop(instr, fr.get(instr.X))

	case *ssa.BinOp:
		fr.env[instr] = fr.binop(instr.Op, instr.X.Type(), instr.Y.Type(), fr.get(instr.X), fr.get(instr.Y))

	case *ssa.Call:
		fn, args := prepareCall(fr, &instr.Call)
		fr.env[instr] = call(fr.i, fr, instr.Pos(), fn, args)

	case *ssa.ChangeInterface:
		fr.env[instr] = fr.get(instr.X)

	case *ssa.ChangeType:
		fr.env[instr] = fr.get(instr.X) // (can't fail)

	case *ssa.Convert:
		fr.env[instr] = fr.conv(instr.Type(), instr.X.Type(), fr.get(instr.X))

	case *ssa.MultiConvert:
		fr.env[instr] = fr.conv(instr.Type(), instr.X.Type(), fr.get(instr.X))

	case *ssa.SliceToArrayPointer:
		fr.env[instr] = sliceToArrayPointer(instr.Type(), instr.X.Type(), fr.get(instr.X))

	case *ssa.MakeInterface:
		x := fr.get(instr.X)
		fr.env[instr] = iface{t: instr.X.Type(), v: x}

	case *ssa.Extract:
		tup := fr.get(instr.Tuple)
		if p, ok := tup.(poison); ok {
			fr.env[instr] = p
		} else {
			fr.env[instr] = tup.(tuple)[instr.Index]
		}

	case *ssa.Slice:
		fr.env[instr] = fr.slice(instr, fr.get(instr.X), fr.get(instr.Low), fr.get(instr.High), fr.get(instr.Max))

	case *ssa.Return:
		switch len(instr.Results) {
		case 0:
		case 1:
			fr.result = fr.get(instr.Results[0])
		default:
			var res []value
			for _, r := range instr.Results {
				res = append(res, fr.get(r))
			}
			fr.result = tuple(res)
		}
		fr.block = nil
		return kReturn

	case *ssa.RunDefers:
		fr.runDefers()

	case *ssa.Panic:
		panic(targetPanic{v: fr.get(instr.X), pos: fr.pos(instr.Pos())})

	case *ssa.Send:
		chanSend(fr, fr.get(instr.Chan), fr.get(instr.X))

	case *ssa.Store:
		addr := fr.get(instr.Addr)
		p, ok := addr.(*value)
		if !ok {
			if po, isP := addr.(poison); isP {
				panic(engineError("store through poison pointer: " + po.why))
			}
			panic(engineError(fmt.Sprintf("store through %T", addr)))
		}
		if p == nil {
			panic(targetPanic{v: iface{t: rtErrType, v: "runtime error: invalid memory address or nil pointer dereference"}, pos: fr.pos(instr.Pos())})
		}
		m.store(deref(instr.Addr.Type()), p, fr.get(instr.Val))

	case *ssa.If:
		succ := 1
		if fr.decideValue(fr.get(instr.Cond)) {
			succ = 0
		}
		fr.prevBlock, fr.block = fr.block, fr.block.Succs[succ]
		return kJump

	case *ssa.Jump:
		fr.prevBlock, fr.block = fr.block, fr.block.Succs[0]
		return kJump

	case *ssa.Defer:
		fn, args := prepareCall(fr, &instr.Call)
		defers := &fr.defers
		if into := fr.get(instr.DeferStack); into != nil {
			defers = into.(**deferred)
		}
		*defers = &deferred{
			fn:    fn,
			args:  args,
			instr: instr,
			tail:  *defers,
		}

	case *ssa.Go:
		fn, args := prepareCall(fr, &instr.Call)
		spawnGoroutine(fr, instr, fn, args)

	case *ssa.MakeChan:
		fr.env[instr] = makeChan(fr, asInt64(fr.get(instr.Size)))

	case *ssa.Alloc:
		var addr *value
		if instr.Heap {
			// new
			addr = new(value)
			fr.env[instr] = addr
			*addr = zero(deref(instr.Type()))
		} else {
			// local
			addr = fr.env[instr].(*value)
			*addr = zero(deref(instr.Type()))
		}

	case *ssa.MakeSlice:
		capV := fr.get(instr.Cap)
		lenV := fr.get(instr.Len)
		if isSym(capV) || isSym(lenV) {
			panic(engineError("make([]T, n) with symbolic n at " + fr.pos(instr.Pos())))
		}
		c, l := asInt64(capV), asInt64(lenV)
		if l < 0 || c < l || c > 1<<24 {
			panic(runtimePanic("makeslice: len out of range"))
		}
		slice := make([]value, c)
		tElt := instr.Type().Underlying().(*types.Slice).Elem()
		for i := range slice {
			slice[i] = zero(tElt)
		}
		fr.env[instr] = slice[:l]

	case *ssa.MakeMap:
		fr.env[instr] = makeMap(instr.Type().Underlying().(*types.Map).Key())

	case *ssa.Range:
		fr.env[instr] = fr.rangeIter(instr, fr.get(instr.X))

	case *ssa.Next:
		fr.env[instr] = fr.get(instr.Iter).(iter).next()

	case *ssa.FieldAddr:
		x := fr.get(instr.X)
		p, ok := x.(*value)
		if !ok {
			if po, isP := x.(poison); isP {
				panic(engineError("field of poison pointer: " + po.why + " at " + fr.pos(instr.Pos())))
			}
			panic(engineError(fmt.Sprintf("FieldAddr on %T", x)))
		}
		if p == nil {
			panic(targetPanic{v: iface{t: rtErrType, v: "runtime error: invalid memory address or nil pointer dereference"}, pos: fr.pos(instr.Pos())})
		}
		s, ok := (*p).(structure)
		if !ok {
			if po, isP := (*p).(poison); isP {
				panic(engineError("field of poison struct: " + po.why + " at " + fr.pos(instr.Pos())))
			}
			panic(engineError(fmt.Sprintf("FieldAddr: pointee is %T at %s", *p, fr.pos(instr.Pos()))))
		}
		fr.env[instr] = &s[instr.Field]

	case *ssa.Field:
		x := fr.get(instr.X)
		if po, isP := x.(poison); isP {
			fr.env[instr] = po
		} else {
			fr.env[instr] = x.(structure)[instr.Field]
		}

	case *ssa.IndexAddr:
		x := fr.get(instr.X)
		idx := fr.get(instr.Index)
		switch x := x.(type) {
		case []value:
			fr.env[instr] = &x[fr.concreteIndex(idx, len(x), "slice")]
		case *value: // *array
			if x == nil {
				panic(targetPanic{v: iface{t: rtErrType, v: "runtime error: invalid memory address or nil pointer dereference"}, pos: fr.pos(instr.Pos())})
			}
			a := (*x).(array)
			fr.env[instr] = &a[fr.concreteIndex(idx, len(a), "array")]
		case poison:
			panic(engineError("index of poison: " + x.why))
		default:
			panic(engineError(fmt.Sprintf("unexpected x type in IndexAddr: %T", x)))
		}

	case *ssa.Index:
		x := fr.get(instr.X)
		idx := fr.get(instr.Index)
		switch x := x.(type) {
		case array:
			fr.env[instr] = copyVal(x[fr.concreteIndex(idx, len(x), "array")])
		case string:
			if it, ok := idx.(*Term); ok && !it.IsConst() {
				fr.env[instr] = fr.symStringIndex(mkStr(x), it)
			} else {
				fr.env[instr] = x[fr.concreteIndex(idx, len(x), "string")]
			}
		case *Term:
			fr.env[instr] = fr.symStringIndex(x, liftIndex(idx))
		default:
			panic(engineError(fmt.Sprintf("unexpected x type in Index: %T", x)))
		}

	case *ssa.Lookup:
		fr.env[instr] = fr.lookup(instr, fr.get(instr.X), fr.get(instr.Index))

	case *ssa.MapUpdate:
		mv := fr.get(instr.Map)
		key := fr.get(instr.Key)
		v := fr.get(instr.Value)
		switch mm := mv.(type) {
		case *mapV:
			if mm == nil {
				panic(targetPanic{v: iface{t: rtErrType, v: "assignment to entry in nil map"}, pos: fr.pos(instr.Pos())})
			}
			mm.insert(fr, key, copyVal(v))
		case poison:
			panic(engineError("map update on poison: " + mm.why))
		default:
			panic(engineError(fmt.Sprintf("illegal map type: %T", mv)))
		}

	case *ssa.TypeAssert:
		x := fr.get(instr.X)
		if po, isP := x.(poison); isP {
			panic(engineError("type assertion on poison: " + po.why + " at " + fr.pos(instr.Pos())))
		}
		fr.env[instr] = typeAssert(fr, instr, x.(iface))

	case *ssa.MakeClosure:
		var bindings []value
		for _, binding := range instr.Bindings {
			bindings = append(bindings, fr.get(binding))
		}
		fr.env[instr] = &closure{instr.Fn.(*ssa.Function), bindings}

	case *ssa.Phi:
		panic(engineError("unreachable: phi"))

	case *ssa.Select:
		fr.env[instr] = doSelect(fr, instr)

	default:
		panic(engineError(fmt.Sprintf("unexpected instruction: %T", instr)))
	}
	return kNext
}

func prepareCall(fr *frame, call *ssa.CallCommon) (fn value, args []value) {
	v := fr.get(call.Value)
	if call.Method == nil {
		// Function call.
		fn = v
	} else {
		// Interface method invocation.
		if po, ok := v.(poison); ok {
			// invoking a method on a value the engine could not construct: result is poison
			return poisonFn{why: po.why, sig: call.Signature()}, nil
		}
		recv := v.(iface)
		if recv.t == nil {
			panic(targetPanic{v: iface{t: rtErrType, v: "runtime error: invalid memory address or nil pointer dereference (method " + call.Method.Name() + " invoked on nil interface)"}, pos: fr.pos(call.Pos())})
		}
		if f := lookupMethod(fr.i, recv.t, call.Method); f == nil {
			panic(engineError(fmt.Sprintf("method set for dynamic type %v does not contain %s", recv.t, call.Method)))
		} else {
			fn = f
		}
		args = append(args, recv.v)
	}
	for _, arg := range call.Args {
		args = append(args, fr.get(arg))
	}
	return
}

// poisonFn is the "function" obtained by invoking a method on poison.
type poisonFn struct {
	why string
	sig *types.Signature
}

func poisonResult(sig *types.Signature, why string) value {
	switch sig.Results().Len() {
	case 0:
		return nil
	case 1:
		return poison{why: why}
	}
	t := make(tuple, sig.Results().Len())
	for i := range t {
		t[i] = poison{why: why}
	}
	return t
}

func call(i *machine, caller *frame, callpos token.Pos, fn value, args []value) value {
	switch fn := fn.(type) {
	case *ssa.Function:
		if fn == nil {
			panic(targetPanic{v: iface{t: rtErrType, v: "runtime error: invalid memory address or nil pointer dereference (call of nil func)"}})
		}
		return callSSA(i, caller, callpos, fn, args, nil)
	case *closure:
		return callSSA(i, caller, callpos, fn.Fn, args, fn.Env)
	case *ssa.Builtin:
		return callBuiltin(caller, fn, args)
	case poisonFn:
		return poisonResult(fn.sig, "method result of poison receiver: "+fn.why)
	case poison:
		panic(engineError("call of poison function value: " + fn.why))
	case *nativeClosure:
		return fn.f(caller, args)
	}
	panic(engineError(fmt.Sprintf("cannot call %T", fn)))
}

// nativeClosure is a function value implemented by the engine (used by intrinsics
// that must hand a func to interpreted code).
type nativeClosure struct {
	f func(fr *frame, args []value) value
}

func funcKey(fn *ssa.Function) string {
	if o := fn.Origin(); o != nil {
		return o.String()
	}
	return fn.String()
}

func callSSA(i *machine, caller *frame, callpos token.Pos, fn *ssa.Function, args []value, env []value) value {
	if i.trace {
		fmt.Fprintf(os.Stderr, "%*sEntering %s\n", i.depth, "", fn)
	}
	fr := &frame{
		i:      i,
		caller: caller, // for panic/recover
		fn:     fn,
	}
	if caller != nil {
		fr.g = caller.g
	}
	name := fn.String()
	if fn.Parent() == nil {
		// replacements declared by the harness take precedence
		if i.cfg != nil {
			if repl := i.cfg.replacement(i, fn); repl != nil {
				return callSSA(i, caller, callpos, repl, args, nil)
			}
		}
		if ext := externals[name]; ext != nil {
			if r, handled := ext(fr, args); handled {
				return r
			}
		} else if o := fn.Origin(); o != nil {
			if ext := externals[o.String()]; ext != nil {
				if r, handled := ext(fr, args); handled {
					return r
				}
			}
		}
		if i.cfg != nil && i.cfg.isStub(fn) {
			i.path.noteStub(funcKey(fn))
			return poisonResult(fn.Signature, "result of stub "+name)
		}
		if r, handled := tryNative(fr, fn, args); handled {
			return r
		}
	}
	if fn.Blocks == nil {
		panic(engineError("no code for function: " + name))
	}
	guardTimeMethod(fn)

	// generic function body?
	if fn.TypeParams().Len() > 0 && len(fn.TypeArgs()) == 0 {
		panic(engineError("uninstantiated generic function " + name))
	}
	if i.initDepth == 0 {
		if i.funcsSeen != nil && !i.funcsSeen[fn] {
			i.funcsSeen[fn] = true
		}
	}
	i.depth++
	if i.depth > 400 {
		panic(engineError("call depth exceeded in " + name))
	}
	defer func() { i.depth-- }()

	fr.env = make(map[ssa.Value]value)
	fr.block = fn.Blocks[0]
	fr.locals = make([]value, len(fn.Locals))
	for i, l := range fn.Locals {
		fr.locals[i] = zero(deref(l.Type()))
		fr.env[l] = &fr.locals[i]
	}
	for i, p := range fn.Params {
		fr.env[p] = args[i]
	}
	for i, fv := range fn.FreeVars {
		fr.env[fv] = env[i]
	}
	for fr.block != nil {
		runFrame(fr)
	}
	return fr.result
}

// violationStop unwinds a path after a confirmed-candidate violation was recorded.
type violationStop struct{}

func runFrame(fr *frame) {
	defer func() {
		if fr.block == nil {
			return // normal return
		}
		r := recover()
		switch r.(type) {
		case engineErr:
			ee := r.(engineErr)
			if !strings.Contains(ee.msg, " [in ") {
				ee.msg += " [in " + fr.fn.String() + "]"
				if os.Getenv("GOSYM_STACK") != "" {
					for f := fr.caller; f != nil; f = f.caller {
						if f.fn != nil {
							ee.msg += " <- " + f.fn.String()
						}
					}
				}
			}
			panic(ee)
		case pathAbort, violationStop, killGoroutine:
			panic(r)
		case runtime.Error:
			panic(r) // engine bug: never attributed to the target
		case nil:
			return
		}
		if tp, ok := r.(targetPanic); ok && tp.pos == "" {
			tp.pos = fr.fn.String()
			if os.Getenv("GOSYM_STACK") != "" {
				for f := fr.caller; f != nil; f = f.caller {
					if f.fn != nil {
						tp.pos += " <- " + f.fn.String()
					}
				}
			}
			r = tp
		}
		fr.panicking = true
		fr.panic = r
		fr.runDefers()
		fr.block = fr.fn.Recover
		if fr.block == nil {
			// recovered in a function without named results: return zero values
			fr.result = zeroResult(fr.fn.Signature)
		}
	}()

	m := fr.i
	for {
		nonPhis := executePhis(fr)
		for _, instr := range nonPhis {
			m.fuel--
			if m.fuel < 0 {
				panic(pathAbort{reason: "fuel"})
			}
			if m.trace {
				if v, ok := instr.(ssa.Value); ok {
					fmt.Fprintf(os.Stderr, "%*s  %s = %s\n", m.depth, "", v.Name(), instr)
				} else {
					fmt.Fprintf(os.Stderr, "%*s  %s\n", m.depth, "", instr)
				}
			}
			k := visitInstr(fr, instr)
			if k == kReturn {
				return
			}
			if k == kJump {
				break
			}
		}
	}
}

func zeroResult(sig *types.Signature) value {
	switch sig.Results().Len() {
	case 0:
		return nil
	case 1:
		return zero(sig.Results().At(0).Type())
	}
	t := make(tuple, sig.Results().Len())
	for i := range t {
		t[i] = zero(sig.Results().At(i).Type())
	}
	return t
}

func executePhis(fr *frame) []ssa.Instruction {
	firstNonPhi := -1
	for i, instr := range fr.block.Instrs {
		if _, ok := instr.(*ssa.Phi); !ok {
			firstNonPhi = i
			break
		}
	}
	nonPhis := fr.block.Instrs[firstNonPhi:]
	if firstNonPhi > 0 {
		phis := fr.block.Instrs[:firstNonPhi]
		predIndex := slices.Index(fr.block.Preds, fr.prevBlock)
		fr.phitemps = fr.phitemps[:0]
		for _, phi := range phis {
			phi := phi.(*ssa.Phi)
			fr.phitemps = append(fr.phitemps, fr.get(phi.Edges[predIndex]))
		}
		for i, phi := range phis {
			fr.env[phi.(*ssa.Phi)] = fr.phitemps[i]
		}
	}
	return nonPhis
}

// doRecover implements the recover() built-in.
func doRecover(caller *frame) value {
	if caller != nil && !caller.panicking &&
		caller.caller != nil && caller.caller.panicking {
		caller.caller.panicking = false
		p := caller.caller.panic
		caller.caller.panic = nil
		switch p := p.(type) {
		case targetPanic:
			return p.v
		default:
			panic(engineError(fmt.Sprintf("unexpected panic type %T in target call to recover()", p)))
		}
	}
	return iface{}
}
