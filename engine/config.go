// gosym: harness configuration and known findings.
package main

import (
	"encoding/json"
	"fmt"
	"os"
	"path/filepath"
	"strings"

	"golang.org/x/tools/go/ssa"
)

type HarnessSpec struct {
	Func        string         `json:"func"`
	Kernel      string         `json:"kernel"`
	Tiers       []string       `json:"tiers"` // default: both
	Twin        bool           `json:"twin"`  // mutant twin: must produce a violation
	TwinLabel   string         `json:"twin_label"`
	MustReach   []string       `json:"must_reach"`
	MaxPaths    int64          `json:"max_paths"`
	TimeBudgetS int            `json:"time_budget_s"`
	Fuel        int64          `json:"fuel"`
	Bounds      map[string]any `json:"bounds"`
	Stubs       []string       `json:"stubs"`
	TimersAtEveryOp bool       `json:"timers_at_every_op"`
	MaxPreemptions  int        `json:"max_preemptions"`
	MaxPreemptionsThorough int `json:"max_preemptions_thorough"`
	// delay-bounded scheduling: at most MaxDelays deviations from round-robin (absent: every enabled goroutine is
	// tried at every blocking point); NoPreemption: switch only when the running goroutine blocks or yields
	MaxDelays         *int `json:"max_delays"`
	MaxDelaysThorough *int `json:"max_delays_thorough"`
	NoPreemption      bool `json:"no_preemption"`
}

func (h *HarnessSpec) timeBudget() int {
	if h.TimeBudgetS > 0 {
		return h.TimeBudgetS
	}
	return 600
}
func (h *HarnessSpec) fuel() int64 {
	if h.Fuel > 0 {
		return h.Fuel
	}
	return 5_000_000
}
func (h *HarnessSpec) inTier(t string) bool {
	if len(h.Tiers) == 0 {
		return true
	}
	for _, x := range h.Tiers {
		if x == t {
			return true
		}
	}
	return false
}

type HarnessConfig struct {
	Property        string            `json:"property"`
	Package         string            `json:"package"`
	Dir             string            `json:"dir"`
	Files           []string          `json:"files"`
	ExtraOverlay    map[string]string `json:"extra_overlay"`
	Harnesses       []HarnessSpec     `json:"harnesses"`
	Stubs           []string          `json:"stubs"`
	Replacements    map[string]string `json:"replacements"`
	InitPackages    []string          `json:"init_packages"`
	SkipInit        []string          `json:"skip_init"`
	SolverTimeoutMs int               `json:"solver_timeout_ms"`
	Solver          string            `json:"solver"`
	Assumptions     []string          `json:"assumptions"`
	Bounds          map[string]any    `json:"bounds"`
	Outside         []string          `json:"outside_the_claim"`
	Technique       string            `json:"technique"`
	SplitEncoding   string            `json:"split_encoding"` // "indexof" (default) or "wordeq"

	dir      string
	pkgName  string
	replFns  map[string]*ssa.Function
	curSpec  *HarnessSpec
	tier     string
}

// commonStubs: environment calls with no bearing on any property (logging, metrics).
var commonStubs = []string{
	"(*istio.io/istio/pkg/log.Scope).*",
	"istio.io/istio/pkg/log.*",
	"(*istio.io/istio/pkg/monitoring.*",
	"(istio.io/istio/pkg/monitoring.*",
	"istio.io/istio/pkg/monitoring.*",
	"(*github.com/prometheus/*",
	"(*go.uber.org/zap*",
	"(*log.Logger).*",
	"log.Printf", "log.Println", "log.Print",
	"k8s.io/klog/v2.*",
	"(k8s.io/klog/v2.*",
}

func loadConfig(path string) (*HarnessConfig, error) {
	b, err := os.ReadFile(path)
	if err != nil {
		return nil, err
	}
	var c HarnessConfig
	if err := json.Unmarshal(b, &c); err != nil {
		return nil, fmt.Errorf("%s: %v", path, err)
	}
	abs, _ := filepath.Abs(path)
	c.dir = filepath.Dir(abs)
	if c.SolverTimeoutMs == 0 {
		c.SolverTimeoutMs = 20000
	}
	if c.Solver == "" {
		c.Solver = "cvc5"
	}
	return &c, nil
}

func matchPattern(pat, name string) bool {
	if strings.HasSuffix(pat, "*") {
		return strings.HasPrefix(name, pat[:len(pat)-1])
	}
	return pat == name
}

func (c *HarnessConfig) isStub(fn *ssa.Function) bool {
	name := funcKey(fn)
	for _, p := range commonStubs {
		if matchPattern(p, name) {
			return true
		}
	}
	for _, p := range c.Stubs {
		if matchPattern(p, name) {
			return true
		}
	}
	if c.curSpec != nil {
		for _, p := range c.curSpec.Stubs {
			if matchPattern(p, name) {
				return true
			}
		}
	}
	return false
}

func (c *HarnessConfig) skipInit(pkgPath string) bool {
	for _, p := range c.SkipInit {
		if matchPattern(p, pkgPath) {
			return true
		}
	}
	return false
}

// maxPreemptions bounds context switches away from a runnable goroutine (CHESS-style).
func (c *HarnessConfig) maxDelays() int {
	if c != nil && c.curSpec != nil {
		if c.tier == "thorough" && c.curSpec.MaxDelaysThorough != nil {
			return *c.curSpec.MaxDelaysThorough
		}
		if c.curSpec.MaxDelays != nil {
			return *c.curSpec.MaxDelays
		}
	}
	return -1
}

func (c *HarnessConfig) maxPreemptions(p *pathState) int {
	if c != nil && c.curSpec != nil {
		if p != nil && p.w.eng.tier == "thorough" && c.curSpec.MaxPreemptionsThorough > 0 {
			return c.curSpec.MaxPreemptionsThorough
		}
		if c.curSpec.NoPreemption {
			return 0
		}
		if c.curSpec.MaxPreemptions > 0 {
			return c.curSpec.MaxPreemptions
		}
	}
	return 2
}

func (c *HarnessConfig) timersAtEveryOp() bool {
	return c != nil && c.curSpec != nil && c.curSpec.TimersAtEveryOp
}

// replacement returns the harness function standing in for fn, if any.
func (c *HarnessConfig) replacement(m *machine, fn *ssa.Function) *ssa.Function {
	if len(c.Replacements) == 0 {
		return nil
	}
	if c.replFns == nil {
		return nil
	}
	return c.replFns[funcKey(fn)]
}

func (c *HarnessConfig) resolveReplacements(pkg *ssa.Package) error {
	c.replFns = map[string]*ssa.Function{}
	for orig, repl := range c.Replacements {
		f := pkg.Func(repl)
		if f == nil {
			return fmt.Errorf("replacement %s: harness function %s not found", orig, repl)
		}
		c.replFns[orig] = f
	}
	return nil
}

// ------------------------------------------------------------------ known findings

type KnownPredicate struct {
	Sym   string `json:"sym"`
	Op    string `json:"op"` // == | !=
	Value any    `json:"value"`
}

type KnownFinding struct {
	ID        string           `json:"id"`
	Status    string           `json:"status"` // open | fixed
	Property  string           `json:"property"`
	Harness   string           `json:"harness"`
	Label     string           `json:"label"`
	DetailHas string           `json:"detail_contains"`
	Where     []KnownPredicate `json:"where"`
	What      string           `json:"what"`
	Commit    string           `json:"commit,omitempty"`
}

type KnownFile struct {
	Findings []KnownFinding `json:"findings"`
}

func loadKnown(path string) []KnownFinding {
	b, err := os.ReadFile(path)
	if err != nil {
		return nil
	}
	var k KnownFile
	if err := json.Unmarshal(b, &k); err != nil {
		fmt.Fprintln(os.Stderr, "KNOWN_FINDINGS.json:", err)
		os.Exit(2)
	}
	return k.Findings
}

// matches reports whether violation v falls under the known finding.
func (k *KnownFinding) matches(v *Violation, prop string) bool {
	if k.Status != "open" || k.Property != prop || k.Harness != v.Harness || k.Label != v.Label {
		return false
	}
	if k.DetailHas != "" && !strings.Contains(v.Detail, k.DetailHas) {
		return false
	}
	for _, p := range k.Where {
		in, ok := v.Inputs[p.Sym].(map[string]any)
		if !ok {
			return false
		}
		eq := fmt.Sprint(in["v"]) == fmt.Sprint(p.Value)
		if (p.Op == "==") != eq {
			return false
		}
	}
	return true
}

// knownExclusions returns, for each open known finding on (harness,label) that has a
// predicate, the negation of the predicate as a term, so that the solver can be
// asked for a violation outside the known one.
func (e *engine) knownExclusions(p *pathState, label string) []*Term {
	var out []*Term
	var all []*Term
	for i := range e.known {
		k := &e.known[i]
		if k.Status != "open" || k.Property != e.cfg.Property || k.Harness != e.curHarness.Func || k.Label != label || len(k.Where) == 0 {
			continue
		}
		conj := termTrue
		usable := true
		for _, pr := range k.Where {
			so, ok := p.inputSorts[pr.Sym]
			if !ok {
				if _, isChoice := p.choices[pr.Sym]; isChoice {
					ch := p.choices[pr.Sym]
					eq := fmt.Sprint(ch) == fmt.Sprint(pr.Value)
					if (pr.Op == "==") != eq {
						conj = termFalse
					}
					continue
				}
				usable = false
				break
			}
			v := mkVar(pr.Sym, so)
			var c *Term
			switch so.K {
			case SBool:
				b, _ := pr.Value.(bool)
				c = tEq(v, mkBool(b))
			case SStr:
				s, _ := pr.Value.(string)
				c = tEq(v, mkStr(s))
			case SBV:
				var n int64
				fmt.Sscan(fmt.Sprint(pr.Value), &n)
				c = tEq(v, mkBV(uint64(n), so.W))
			default:
				usable = false
			}
			if !usable {
				break
			}
			if pr.Op == "!=" {
				c = tNot(c)
			}
			conj = tAnd(conj, c)
		}
		if usable {
			all = append(all, tNot(conj))
		}
	}
	if len(all) > 0 {
		out = append(out, tAnd(all...))
	}
	return out
}
