// gosym: abstract model of package time.
//
// A time.Time is the structure {wall, ext, loc}. In the engine's model wall is a
// tag (0 = the zero Time, 1 = a valid instant) and ext is the instant as signed
// nanoseconds since the Unix epoch (concrete int64 or 64-bit term). Every
// time.Time method the code under test may call is intercepted here; a method
// that is not intercepted is an engine error, never silently interpreted on the
// fake representation.
package main

import (
	"fmt"
	"go/token"
	"go/types"
	"strings"
	"time"

	"golang.org/x/tools/go/ssa"
)

var tInt64 = types.Typ[types.Int64]

func mkTime(ns value) value {
	return structure{uint64(1), ns, (*value)(nil)}
}

func timeParts(v value) (tag uint64, ns value) {
	s, ok := v.(structure)
	if !ok {
		if p, isP := v.(poison); isP {
			panic(engineError("time value is poison: " + p.why))
		}
		panic(engineError(fmt.Sprintf("time value is %T", v)))
	}
	tag, ok = s[0].(uint64)
	if !ok {
		panic(engineError("symbolic time tag"))
	}
	if tag > 1 {
		// a real time.Time constructed by uninterpreted code: convert wall/ext encoding
		panic(engineError("time.Time with real wall encoding reached the abstract time model"))
	}
	return tag, s[1]
}

func recvTime(a value) value {
	// methods have value receivers; pointer receivers (e.g. via *Time) are loaded
	if p, ok := a.(*value); ok {
		if p == nil {
			panic(runtimePanic("invalid memory address or nil pointer dereference"))
		}
		return *p
	}
	return a
}

// nowSym returns a fresh instant not earlier than any earlier one.
func (m *machine) nowSym() *Term {
	p := m.path
	if p == nil {
		return mkBV(uint64(1_700_000_000_000_000_000), 64)
	}
	t := p.freshVar("now", bvSort(64))
	lo := mkBV(uint64(1_000_000_000_000_000_000), 64) // 2001
	hi := mkBV(uint64(4_000_000_000_000_000_000), 64) // 2096
	p.assume(bvCmp("bvsge", t, lo))
	p.assume(bvCmp("bvsle", t, hi))
	if s := m.sch; s != nil {
		if s.nowLast != nil {
			p.assume(bvCmp("bvsge", t, s.nowLast))
		}
		s.nowLast = t
	}
	return t
}

func (fr *frame) cmpInt64(op token.Token, x, y value) value {
	return fr.binop(op, tInt64, tInt64, x, y)
}

func initTimeIntrinsics() {
	reg("time.Now", func(fr *frame, a []value) (value, bool) {
		return mkTime(concretize(fr.i.nowSym(), tInt64)), true
	})
	reg(vpPkg+".Time", func(fr *frame, a []value) (value, bool) {
		p := needPath(fr)
		t := p.input(argStr(a[0]), bvSort(64), "time")
		p.assume(bvCmp("bvsge", t, mkBV(uint64(1_000_000_000_000_000_000), 64)))
		p.assume(bvCmp("bvsle", t, mkBV(uint64(4_000_000_000_000_000_000), 64)))
		return mkTime(t), true
	})
	reg("time.Unix", func(fr *frame, a []value) (value, bool) {
		if !isSym(a[0]) && asInt64(a[0]) == 0 && isSym(a[1]) {
			return mkTime(a[1]), true // time.Unix(0, ns): the instant itself in the abstract model
		}
		if anySym(a) {
			panic(engineError("time.Unix with symbolic arguments"))
		}
		return mkTime(asInt64(a[0])*1_000_000_000 + asInt64(a[1])), true
	})
	reg("time.UnixMilli", func(fr *frame, a []value) (value, bool) {
		if anySym(a) {
			panic(engineError("time.UnixMilli with symbolic arguments"))
		}
		return mkTime(asInt64(a[0]) * 1_000_000), true
	})
	reg("time.Date", func(fr *frame, a []value) (value, bool) {
		if anySym(a) {
			panic(engineError("time.Date with symbolic arguments"))
		}
		t := time.Date(int(asInt64(a[0])), time.Month(asInt64(a[1])), int(asInt64(a[2])), int(asInt64(a[3])), int(asInt64(a[4])), int(asInt64(a[5])), int(asInt64(a[6])), time.UTC)
		if t.IsZero() {
			return structure{uint64(0), int64(0), (*value)(nil)}, true
		}
		return mkTime(t.UnixNano()), true
	})
	reg("time.Since", func(fr *frame, a []value) (value, bool) {
		tag, ns := timeParts(a[0])
		if tag == 0 {
			return int64(1<<63 - 1), true
		}
		return fr.binop(token.SUB, tInt64, tInt64, concretize(fr.i.nowSym(), tInt64), ns), true
	})
	reg("time.Until", func(fr *frame, a []value) (value, bool) {
		tag, ns := timeParts(a[0])
		if tag == 0 {
			return int64(-1 << 63), true
		}
		return fr.binop(token.SUB, tInt64, tInt64, ns, concretize(fr.i.nowSym(), tInt64)), true
	})
	reg("(time.Time).IsZero", func(fr *frame, a []value) (value, bool) {
		tag, _ := timeParts(recvTime(a[0]))
		return tag == 0, true
	})
	reg("(time.Time).UnixNano", func(fr *frame, a []value) (value, bool) {
		tag, ns := timeParts(recvTime(a[0]))
		if tag == 0 {
			return int64(-6795364578871345152), true // what the real method yields for the zero Time
		}
		return ns, true
	})
	reg("(time.Time).Unix", func(fr *frame, a []value) (value, bool) {
		tag, ns := timeParts(recvTime(a[0]))
		if tag == 0 {
			return int64(-62135596800), true
		}
		if isSym(ns) {
			panic(engineError("(time.Time).Unix on a symbolic instant (division by 1e9 is not encoded)"))
		}
		return asInt64(ns) / 1_000_000_000, true
	})
	reg("(time.Time).Add", func(fr *frame, a []value) (value, bool) {
		tag, ns := timeParts(recvTime(a[0]))
		if tag == 0 {
			if isSym(a[1]) {
				panic(engineError("zero Time .Add(symbolic)"))
			}
			if asInt64(a[1]) == 0 {
				return recvTime(a[0]), true
			}
			panic(engineError("zero Time .Add(non-zero) is outside the abstract time model"))
		}
		return mkTime(fr.binop(token.ADD, tInt64, tInt64, ns, a[1])), true
	})
	reg("(time.Time).Sub", func(fr *frame, a []value) (value, bool) {
		tag1, n1 := timeParts(recvTime(a[0]))
		tag2, n2 := timeParts(a[1])
		switch {
		case tag1 == 0 && tag2 == 0:
			return int64(0), true
		case tag1 == 0:
			return int64(-1 << 63), true // saturates
		case tag2 == 0:
			return int64(1<<63 - 1), true
		}
		return fr.binop(token.SUB, tInt64, tInt64, n1, n2), true
	})
	cmp := func(op token.Token, zeroFirst, firstZero, bothZero bool) externalFn {
		return func(fr *frame, a []value) (value, bool) {
			tag1, n1 := timeParts(recvTime(a[0]))
			tag2, n2 := timeParts(a[1])
			switch {
			case tag1 == 0 && tag2 == 0:
				return bothZero, true
			case tag1 == 0:
				return firstZero, true
			case tag2 == 0:
				return zeroFirst, true
			}
			return fr.cmpInt64(op, n1, n2), true
		}
	}
	// t.Before(u): t<u. zero is before everything.
	reg("(time.Time).Before", cmp(token.LSS, false, true, false))
	reg("(time.Time).After", cmp(token.GTR, true, false, false))
	reg("(time.Time).Equal", cmp(token.EQL, false, false, true))
	reg("(time.Time).Compare", func(fr *frame, a []value) (value, bool) {
		tag1, n1 := timeParts(recvTime(a[0]))
		tag2, n2 := timeParts(a[1])
		switch {
		case tag1 == 0 && tag2 == 0:
			return 0, true
		case tag1 == 0:
			return -1, true
		case tag2 == 0:
			return 1, true
		}
		lt := fr.cmpInt64(token.LSS, n1, n2)
		gt := fr.cmpInt64(token.GTR, n1, n2)
		if !isSym(lt) && !isSym(gt) {
			switch {
			case lt.(bool):
				return -1, true
			case gt.(bool):
				return 1, true
			}
			return 0, true
		}
		return tIte(asBoolTerm(lt), mkBV(^uint64(0), 64), tIte(asBoolTerm(gt), mkBV(1, 64), mkBV(0, 64))), true
	})
	ident := func(fr *frame, a []value) (value, bool) { return recvTime(a[0]), true }
	for _, n := range []string{"UTC", "Local", "In", "Round", "Truncate"} {
		if n == "Round" || n == "Truncate" {
			nn := n
			reg("(time.Time)."+n, func(fr *frame, a []value) (value, bool) {
				if d, ok := a[1].(int64); ok && d <= 1 {
					return recvTime(a[0]), true
				}
				panic(engineError("(time.Time)." + nn + " with a non-trivial duration is not modelled"))
			})
			continue
		}
		reg("(time.Time)."+n, ident)
	}
	reg("(time.Time).String", func(fr *frame, a []value) (value, bool) { return "<time>", true })
	reg("(time.Time).Format", func(fr *frame, a []value) (value, bool) {
		if fr.i.path != nil {
			return fr.i.path.freshVar("timefmt", sortStr), true
		}
		return "<time>", true
	})
	reg("(time.Duration).String", func(fr *frame, a []value) (value, bool) {
		if d, ok := a[0].(int64); ok {
			return time.Duration(d).String(), true
		}
		return fr.i.path.freshVar("durfmt", sortStr), true
	})

	// timers
	newTimerChan := func(fr *frame, d value, fn value) *timerV {
		s := fr.i.sch
		if s == nil {
			panic(engineError("timer created outside a path"))
		}
		t := &timerV{c: &chanV{capn: 1}, d: d, fn: fn}
		t.armedAt = s.nowLast
		s.timers = append(s.timers, t)
		return t
	}
	reg("time.After", func(fr *frame, a []value) (value, bool) {
		return newTimerChan(fr, a[0], nil).c, true
	})
	reg("time.Tick", func(fr *frame, a []value) (value, bool) {
		return newTimerChan(fr, a[0], nil).c, true
	})
	// *time.Timer is {C <-chan Time, initTimer bool}; keep the timerV in a side table.
	timerStructOf := func(fr *frame, t *timerV) value {
		cell := new(value)
		*cell = structure{t.c, false}
		type tk struct{ p *value }
		fr.i.path.side[tk{cell}] = t
		return cell
	}
	timerOf := func(fr *frame, recv value) *timerV {
		type tk struct{ p *value }
		t, ok := fr.i.path.side[tk{recv.(*value)}]
		if !ok {
			panic(engineError("unknown *time.Timer"))
		}
		return t.(*timerV)
	}
	reg("time.NewTimer", func(fr *frame, a []value) (value, bool) {
		return timerStructOf(fr, newTimerChan(fr, a[0], nil)), true
	})
	reg("time.AfterFunc", func(fr *frame, a []value) (value, bool) {
		return timerStructOf(fr, newTimerChan(fr, a[0], a[1])), true
	})
	reg("(*time.Timer).Stop", func(fr *frame, a []value) (value, bool) {
		t := timerOf(fr, a[0])
		was := !t.fired && !t.stopped
		t.stopped = true
		return was, true
	})
	reg("(*time.Timer).Reset", func(fr *frame, a []value) (value, bool) {
		t := timerOf(fr, a[0])
		was := !t.fired && !t.stopped
		t.fired, t.stopped, t.d = false, false, a[1]
		t.armedAt = fr.i.sch.nowLast
		t.c.buf = nil // Go 1.23+ semantics: Reset drains stale values
		return was, true
	})
	reg(vpPkg+".Yield", func(fr *frame, a []value) (value, bool) {
		visibleOp(fr, "yield")
		return nil, true
	})
	// vp.Quiesce runs the other goroutines until none of them is enabled (timers are not fired)
	reg(vpPkg+".Quiesce", func(fr *frame, a []value) (value, bool) {
		m := fr.i
		s := m.sch
		if s == nil {
			return nil, true
		}
		cur := m.curG
		for {
			others := s.enabled(cur)
			if len(others) == 0 {
				return nil, true
			}
			g, _ := s.pick(others, nil)
			cur.blocked = func() bool { return true } // runnable again as soon as somebody yields back
			cur.what = "quiesce"
			s.switchTo(cur, g)
			cur.blocked = nil
			if s.fatal != nil && cur.isMain {
				panic(s.fatal)
			}
		}
	})
	// vp.FireTimers lets every armed timer fire (in an order chosen by the scheduler)
	reg(vpPkg+".FireTimer", func(fr *frame, a []value) (value, bool) {
		s := fr.i.sch
		ts := s.armedTimers()
		if len(ts) == 0 {
			return false, true
		}
		_, t := s.pick(nil, ts)
		s.fire(fr, t)
		return true, true
	})
	reg(vpPkg+".ArmedTimers", func(fr *frame, a []value) (value, bool) {
		return len(fr.i.sch.armedTimers()), true
	})
}

// fire delivers timer t: the clock moves to at least armedAt+d.
func (s *sched) fire(fr *frame, t *timerV) {
	m := s.m
	t.fired = true
	now := m.nowSym()
	if t.armedAt != nil && m.path != nil {
		due := lift(fr.binop(token.ADD, tInt64, tInt64, concretize(t.armedAt, tInt64), t.d))
		m.path.assume(bvCmp("bvsge", now, due))
	}
	if t.fn != nil {
		// AfterFunc: run in its own goroutine
		spawnGoroutine(fr, &ssa.Go{}, t.fn, nil)
		return
	}
	if len(t.c.buf) == 0 {
		doSendNow(t.c, mkTime(concretize(now, tInt64)))
	}
}

func init() {
	initTimeIntrinsics()
}

// guardTimeMethods reports any (time.Time) method that is about to be interpreted
// from source on the abstract representation.
func guardTimeMethod(fn *ssa.Function) {
	name := fn.String()
	if strings.HasPrefix(name, "(time.Time).") || strings.HasPrefix(name, "(*time.Time).") {
		switch name {
		case "(time.Time).GoString":
			return
		}
		panic(engineError("time.Time method not modelled: " + name))
	}
}
